(* C15/Check.v — executable comparison of one recorded implementation step with tf_spec
   (vm_compute on exact dyadics).  From the implementation's own state before the step and the
   gradient it recomputes everything upstream of the oracle kernels exactly, checks the oracle
   answers (stored roots / captured SVD) against their specs, and recomputes update and next state
   downstream of them. *)
From Precond Require Import Base.PyLib Base.QMat C06.Records C06.Ref C09.Model C09.Check
     C15.Tensor C15.Model.
Open Scope Q_scope.

(* x within tol * max|model| of the model value (tol = 0: exact equality) *)
Definition vrel (tol : Q) (x model : vec) : bool := vclose (tol * maxabs_vec model) x model.
Definition mrel (tol : Q) (A model : mat) : bool := mclose (tol * maxabs model) A model.
Definition all2 {A B} (f : A -> B -> bool) (l1 : list A) (l2 : list B) : bool :=
  Nat.eqb (length l1) (length l2) && forallb (fun '(a, b) => f a b) (combine l1 l2).
Definition mats_rel (tol : Q) (As Bs : list (list mat)) : bool := all2 (all2 (mrel tol)) As Bs.
Definition veq (x y : vec) : bool := vclose 0 x y.
Definition mats_eq (As Bs : list (list mat)) : bool := all2 (all2 (mclose 0)) As Bs.

(* ---------- Shampoo roots: proposal (w, V, r) checked, then the stored root ---------- *)
Record eprop := mkep { e_w : vec; e_V : list vec; e_r : vec }.

Definition eps6 : Q := 1 # 1000000.
Definition vmax (v : vec) : Q := match v with [] => 0 | a :: t => fold_left Qmax t a end.
Definition kept (w : vec) : list bool := map (fun wi => Qltb (eps6 * vmax w) wi) w.
Definition b2q (b : bool) : Q := if b then 1 else 0.

(* an eigenvalue within 2^-20 (relative) of the cut-off: the float comparison may go either way *)
Definition eig_ambiguous (w : vec) : bool :=
  let th := eps6 * vmax w in
  Qltb 0 th && existsb (fun wi => Qleb (Qabs (wi - th)) (th * (1 # 1048576))) w.

Definition eig_ok (tol : Q) (n : nat) (C : mat) (e : eprop) : bool :=
  Nat.eqb (length (e_w e)) n && Nat.eqb (length (e_V e)) n &&
  forallb (fun v => Nat.eqb (length v) n) (e_V e) &&
  ortho_or_zero tol (e_V e) &&
  forallb (fun v => negb (is_zero_vec v)) (e_V e) &&
  mclose (tol * maxabs C) (sketch_mat n (e_V e) (e_w e)) C.

(* r_i^p * w_i = 1 on kept eigenvalues, r_i = 0 on the others *)
Definition scalar_roots_ok (tol : Q) (p : positive) (e : eprop) : bool :=
  Nat.eqb (length (e_r e)) (length (e_w e)) &&
  forallb (fun '(k, (w, r)) =>
             if (k : bool) then Qltb 0 r && qclose (tol * inject_Z (Zpos p)) (qnorm (Qpower r (Zpos p) * w)) 1
             else Qeq_bool r 0)
          (combine (kept (e_w e)) (combine (e_w e) (e_r e))).

(* condition number of the kept spectrum (scales the tolerance of the matrix comparisons) *)
Definition kappa (w : vec) : Q :=
  let ks := map snd (filter (fun p => fst p) (combine (kept w) w)) in
  match ks with [] => 1 | a :: t => vmax w / fold_left Qmin t a end.

(* stored root R against the proposal:  R = V diag(r) V^T  and, directly, the documented spec
   R^p C = projector onto the kept eigenspace *)
Definition root_ok (tol : Q) (n : nat) (p : positive) (C R : mat) (e : eprop) : bool :=
  let slack := tol * (1 + kappa (e_w e)) in
  let Rhat := sketch_mat n (e_V e) (e_r e) in
  let proj := sketch_mat n (e_V e) (map b2q (kept (e_w e))) in
  if negb (mclose (slack * vmax (e_r e)) R Rhat) then false
  else mclose (slack * 4 * inject_Z (Zpos p)) (mmul (mpow_pos R p) C) proj.

(* ---------- Sketchy: captured SVD call of one axis ---------- *)
Record svdrec := mksvd { s_F : mat; s_U : list vec; s_s : vec }.

Definition sk_eps (c : cfg) (a : skaxis) : Q :=
  if c_releps c && Qltb 0 (c_seps c)
  then c_seps c * maxabs_vec (map (fun x => x + a_tail a) (sqv (a_e a)))
  else c_seps c.

(* returns 0, or 1 (matrix handed to the SVD), 2 (SVD answer violates its spec), 3 (new sketch /
   roots do not follow the frequent-directions recurrence) *)
Definition sk_axis_code (c : cfg) (tol : Q) (p : positive) (d : nat) (Gk : mat) (a a' : skaxis)
           (r : svdrec) : Z :=
  let k := Nat.min (Z.to_nat (c_rank c)) d in
  let Mexp := sk_expected_gram (c_beta2 c) d a Gk in
  if negb (mclose (tol * maxabs Mexp) (gram (s_F r)) Mexp) then 1%Z
  else if negb (chk_svd tol d (s_F r) (s_U r) (s_s r)) then 2%Z
  else if negb (chk_recur tol (c_beta2 c) (a_tail a) k (s_s r) (sqv (a_e a')) (a_tail a')) then 3%Z
  else if negb (all2 (fun '(e, v) u => if Qltb 0 e then veq v u else is_zero_vec v)
                     (combine (a_e a') (a_V a')) (firstn k (s_U r))) then 3%Z
  else
    let eps := sk_eps c a' in
    let tp := tol * inject_Z (Zpos p) in
    if negb (all2 (fun e i => if Qltb 0 e then chk_root1 tp p i (qnorm (e * e) + a_tail a' + eps)
                              else Qeq_bool i 0) (a_e a') (a_inv a')) then 3%Z
    else if negb (if Qltb 0 (a_tail a') then chk_root1 tp p (a_itail a') (a_tail a' + eps)
                  else Qeq_bool (a_itail a') 0) then 3%Z
    else 0%Z.

Definition ax_eq (a b : skaxis) : bool :=
  all2 veq (a_V a) (a_V b) && veq (a_e a) (a_e b) && veq (a_inv a) (a_inv b) &&
  Qeq_bool (a_tail a) (a_tail b) && Qeq_bool (a_itail a) (a_itail b).

Fixpoint first_nonzero (l : list Z) : Z :=
  match l with [] => 0%Z | x :: t => if (x =? 0)%Z then first_nonzero t else x end.

(* ---------- one leaf, one step ---------- *)
Record lrec := mkl {
  r_shape : list Z; r_merged : list Z; r_padded : list Z;
  r_x : vec; r_g : vec; r_u : vec; r_ada : vec;
  r_eig : list (list eprop);            (* [axis][block], present on refresh steps *)
  r_svd : list svdrec                   (* per axis, present on sketch-update steps *)
}.

Record tols := mktol { t_stats : Q; t_tau : Q; t_ampmax : Q }.

Definition pos_of_nat (n : nat) : positive := Pos.of_nat n.

(* second-order part: returns 0 or a code in {1,2,3,9,11} *)
Definition so_code (c : cfg) (tl : tols) (socount : Z) (r : lrec) (s s' : so_state) : Z :=
  let sh := shapes_of c (r_shape r) in
  let t := merge_pad sh (r_g r) in
  match s, s' with
  | SoSh stats roots, SoSh stats' roots' =>
    let expS := if due socount (c_sfreq c) then sh_new_stats c t stats else stats in
    if negb (if due socount (c_sfreq c) then mats_rel (t_stats tl) stats' expS else mats_eq stats' expS)
    then 1%Z
    else if negb (due socount (c_pfreq c)) then (if mats_eq roots' roots then 0%Z else 3%Z)
    else
      let p := pos_of_nat (2 * length stats') in
      let bm := sh_meta c (t_shape t) in
      let ns := blk_sizes bm in
      first_nonzero
        (map (fun '(n, (Cs, (Rs, es))) =>
           if negb (Nat.eqb (length Cs) (length Rs) && Nat.eqb (length Cs) (length es)) then 11%Z
           else first_nonzero
             (map (fun '(C, (R, e)) =>
                if negb (eig_ok (t_tau tl) n C e) then 2%Z
                else if eig_ambiguous (e_w e) then 9%Z
                else if negb (scalar_roots_ok (t_tau tl) p e) then 2%Z
                else if root_ok (t_tau tl) n p C R e then 0%Z else 3%Z)
              (combine Cs (combine Rs es))))
         (combine ns (combine stats' (combine roots' (r_eig r)))))
  | SoSk axes, SoSk axes' =>
    if negb (due socount (c_sfreq c)) then (if all2 ax_eq axes' axes then 0%Z else 1%Z)
    else if negb (Nat.eqb (length axes) (length axes') && Nat.eqb (length axes) (length (r_svd r))
                  && Nat.eqb (length axes) (length (t_shape t))) then 11%Z
    else
      let p := pos_of_nat (2 * length axes) in
      first_nonzero
        (map (fun '(k, (d, (a, (a', sv)))) =>
                sk_axis_code c (t_tau tl) p d (unfold_axis k t) a a' sv)
             (combine (seq 0 (length axes))
                (combine (t_shape t) (combine axes (combine axes' (r_svd r))))))
  | SoNone, SoNone => 0%Z
  | _, _ => 11%Z
  end.

(* amplification of the preconditioning stage: (product of the axis operators' inf-norms times
   max|g|) / max|preconditioned g|; rounding errors of the float pipeline scale with it *)
Definition so_amp (c : cfg) (r : lrec) (s' : so_state) (base : vec) : Q :=
  let sh := shapes_of c (r_shape r) in
  let t := merge_pad sh (r_g r) in
  let g := maxabs_vec (r_g r) in
  let b := maxabs_vec base in
  let ops :=
    match s' with
    | SoSh _ roots' =>
      fold_left (fun acc ax => acc * fold_left (fun m R => Qmax m (minf R)) ax 0) roots' 1
    | SoSk axes' => fold_left (fun acc M => acc * minf M) (sk_matrices t axes') 1
    | SoNone => 1
    end in
  if Qeq_bool b 0 then 1 else qnorm (ops * g / b).

Definition shapes_ok (c : cfg) (r : lrec) : bool :=
  let sh := shapes_of c (r_shape r) in
  list_eqb_z (sh_merged_shape sh) (r_merged r) && list_eqb_z (sh_padded_shape sh) (r_padded r).

(* 0 = agrees with tf_spec.  1 statistics / sketch input, 2 oracle proposal violates its spec
   (monitor), 3 stored roots violate the root spec or changed off schedule, 4 grafting accumulator,
   5 momentum state, 6 update, 8 shapes differ from C06.Ref, 9 eigenvalue at the cut-off
   (ambiguous, skipped), 10 ill-conditioned step (amplification above the cap, skipped),
   11 state layout *)
Definition chk_leaf (c : cfg) (tl : tols) (lr : Q) (gcount socount : Z) (r : lrec) (s s' : lstate) : Z :=
  if negb (shapes_ok c r) then 8%Z
  else
    let msk := masked c (r_shape r) in
    let soc := if msk then (match l_so s, l_so s' with SoNone, SoNone => 0%Z | _, _ => 11%Z end)
               else so_code c tl socount r (l_so s) (l_so s') in
    if negb (soc =? 0)%Z then soc
    else
      (* downstream of the oracles: the implementation's own new second-order state is the answer *)
      let '(u, sm) := tf_leaf c lr gcount socount (r_shape r) (r_x r) (r_g r) s (l_so s') (r_ada r) in
      if negb (vrel (t_tau tl) (l_acc s') (l_acc sm)) then 4%Z
      else
        let base := if msk then r_g r else snd (so_step c socount (r_shape r) (r_g r) (l_so s) (l_so s')) in
        let amp := if msk then 1 else so_amp c r (l_so s') base in
        if Qltb (t_ampmax tl) amp then 10%Z
        else
          let '(gu, _) := graft_update c (r_g r) (l_acc s) (r_ada r) in
          let grafted := if (c_graft c =? 0)%Z then base else if msk then gu
                         else graft_combine gcount (c_gstart c) gu base in
          let scale := maxabs_vec grafted + maxabs_vec (l_trace s) + c_wd c * maxabs_vec (r_x r) in
          let tol := t_tau tl * (4 + amp) * scale in
          if negb (vclose tol (l_trace s') (l_trace sm)) then 5%Z
          else if negb (vclose (tol * Qabs lr) (r_u r) u) then 6%Z
          else 0%Z.

(* counters: (graft count, second-order count, lr-schedule count); -1 = not present *)
Definition counts_ok (pre post : Z * Z * Z) : bool :=
  let '(g, s, l) := pre in let '(g', s', l') := post in
  let step a b := if (a <? 0)%Z then (b <? 0)%Z else (b =? a + 1)%Z in
  step g g' && step s s' && step l l'.

(* one step of the whole tree: 100 * leaf + code of the first failing leaf, 7 for the counters *)
Definition chk_step (c : cfg) (tl : tols) (lr : Q) (sched : list Q) (pre post : Z * Z * Z)
           (recs : list lrec) (ss ss' : list lstate) : Z :=
  let '(gc, sc, lc) := pre in
  if negb (counts_ok pre post) then 7%Z
  else if negb (Nat.eqb (length recs) (length ss) && Nat.eqb (length recs) (length ss')) then 11%Z
  else
    first_nonzero
      (map (fun '(i, (r, (s, s'))) =>
              let code := chk_leaf c tl (lr_at lr sched lc) gc sc r s s' in
              if (code =? 0)%Z then 0%Z else (100 * Z.of_nat i + code)%Z)
           (combine (seq 0 (length recs)) (combine recs (combine ss ss')))).
