"""Which functions of /repo are translated on every run, and with which typing context."""
import os

from tools.py2v import Fn

DS = "precondition/distributed_shampoo.py"
TFS = "precondition/tearfree/shampoo.py"
TFR = "precondition/tearfree/reshaper.py"
SM3 = "precondition/sm3.py"

PTYPE = {
    "PreconditionerType.ALL": ("1", "Z"),
    "PreconditionerType.INPUT": ("2", "Z"),
    "PreconditionerType.OUTPUT": ("3", "Z"),
}

# (source file, Fn)
SHAPE_TARGETS = [
    (DS, Fn("merge_small_dims", "merge_small_dims",
            [("shape_to_merge", "list Z"), ("max_dim", "Z")], "list Z",
            locals_={"resulting_shape": "list Z"})),
    (DS, Fn("_precond_dim", "precond_dim", [("compression_rank", "Z"), ("dim", "Z")], "Z")),
    (DS, Fn("_should_compress", "should_compress", [("compression_rank", "Z"), ("dim", "Z")],
            "bool")),
    (DS, Fn("BlockPartitioner.__init__", "block_partitioner_init",
            [("param_shape", "list Z"), ("block_size", "Z")],
            "(list (Z * list Z)) * (list (list Z))",
            subst={"param.shape": ("param_shape", "list Z")},
            locals_={"self_splits": "list (Z * list Z)", "split_sizes": "list (list Z)"},
            drop_params=("param",),
            fallthrough="(self_splits, self_split_sizes)")),
    (DS, Fn("Preconditioner.should_precondition_dims", "should_precondition_dims",
            [("split_sizes_", "list (list Z)"), ("self_preconditioner_type", "Z")], "list bool",
            subst={"self._partitioner.split_sizes()": ("split_sizes_", "list (list Z)")},
            consts=PTYPE, fallthrough="(@nil bool)")),
    (DS, Fn("Preconditioner._preconditioner_shape", "preconditioner_shape",
            [("self_compression_rank", "Z"), ("dim", "Z")], "list Z",
            calls={"_precond_dim": ("precond_dim", "Z")})),
    (DS, Fn("Preconditioner._preconds_for_grad", "preconds_for_grad",
            [("self_preconditioner_type", "Z"), ("preconditioners", "list Z"), ("rank", "Z"),
             ("start", "Z"), ("end_", "Z")], "list Z",
            subst={"end": ("end_", "Z")},
            consts=dict(PTYPE, **{"None": ("(-1)", "Z")}), partial=True)),
    (DS, Fn("Preconditioner.shapes_for_preconditioners", "shapes_for_preconditioners",
            [("split_sizes_", "list (list Z)"), ("self_preconditioner_type", "Z"),
             ("self_compression_rank", "Z")], "list (list Z)",
            subst={"self._partitioner.split_sizes()": ("split_sizes_", "list (list Z)")},
            consts=PTYPE, locals_={"preconditioner_shapes": "list (list Z)"},
            calls={"self._preconditioner_shape": ("preconditioner_shape self_compression_rank",
                                                  "list Z")})),
    (DS, Fn("Preconditioner.exponent_for_preconditioner", "exponent_for_preconditioner",
            [("split_sizes_", "list (list Z)"), ("self_preconditioner_type", "Z")], "Z",
            calls={"self.should_precondition_dims": (
                "should_precondition_dims split_sizes_ self_preconditioner_type", "list bool")})),
    (TFS, Fn("_blocks_metadata", "blocks_metadata",
             [("block_size", "Z"), ("param_shape", "list Z")], "record:_BlocksMetadata",
             subst={"options.block_size": ("block_size", "Z")},
             drop_params=("options", "debug"),
             records={"_BlocksMetadata": [("block_sizes", "list Z"), ("num_blocks", "Z"),
                                          ("debug_name", None), ("large_block_size", "Z"),
                                          ("large_axes", "list Z"), ("param_shape", "list Z"),
                                          ("blocks_per_large_axis", "list Z"),
                                          ("blocks_axis", "Z")]})),
    (TFR, Fn("_derive_shapes", "derive_shapes",
             [("merge_dims", "Z"), ("block_size", "Z"), ("param_shape", "list Z")],
             "record:_Shapes",
             subst={"options.merge_dims": ("merge_dims", "Z"),
                    "options.block_size": ("block_size", "Z"),
                    "param.shape": ("param_shape", "list Z"),
                    "list(param.shape)": ("param_shape", "list Z")},
             drop_params=("options", "param"),
             locals_={"padded": "list Z"},
             consts={"[]": ("(@nil Z)", "list Z")},
             calls={"distributed_shampoo.merge_small_dims": ("merge_small_dims", "list Z")},
             records={"_Shapes": [("original_shape", "list Z"), ("merged_shape", "list Z"),
                                  ("padded_shape", "list Z")]})),
    (SM3, Fn("sm3._get_expanded_shape", "get_expanded_shape", [("shape", "list Z"), ("i", "Z")],
             "list Z")),
]

RECORDS = ""


def generate(repo, targets, modname_header="From Precond Require Import Base.PyLib C06.Records.\n"):
  """Returns (coq_text, errors) where errors is a list of (qual, message)."""
  from tools import py2v
  out = [modname_header, "Open Scope Z_scope.", RECORDS]
  errors = []
  cache = {}
  for path, fn in targets:
    try:
      if path not in cache:
        cache[path] = open(os.path.join(repo, path)).read()
      text, _ = py2v.translate(cache[path], fn)
      out.append(text)
      out.append("")
    except py2v.TranslationError as e:
      errors.append((fn.qual, str(e)))
    except (OSError, SyntaxError) as e:
      errors.append((fn.qual, repr(e)))
  return "\n".join(out), errors


if __name__ == "__main__":
  import sys
  txt, errs = generate(sys.argv[1] if len(sys.argv) > 1 else "/repo", SHAPE_TARGETS)
  print(txt)
  for e in errs:
    print("(* ERROR %s: %s *)" % e)


# ---------------------------------------------------------------------------------------------
# C02: distributed_shampoo._transform_grad, translated with the float-mode extension
# ---------------------------------------------------------------------------------------------
GRAFT = {"GraftingType.NONE": ("0", "Z"), "GraftingType.SGD": ("1", "Z"),
         "GraftingType.ADAGRAD": ("2", "Z"), "GraftingType.RMSPROP": ("3", "Z"),
         "GraftingType.RMSPROP_NORMALIZED": ("4", "Z"), "GraftingType.SQRT_N": ("5", "Z"),
         "GraftingType.ADAGRAD_NORMALIZED": ("6", "Z")}

TG_PARAMS = [("graft_type", "Z"), ("beta1", "Q"), ("beta2", "Q"), ("lr_t", "Q"),
             ("weight_decay", "Q"), ("decoupled_weight_decay", "bool"),
             ("decoupled_learning_rate", "bool"), ("nesterov", "bool"),
             ("moving_average_for_momentum", "bool"), ("diagonal_epsilon", "Q"),
             ("start_preconditioning_step", "Z"), ("clip", "Q"), ("eps25", "Q"),
             ("step", "Z"), ("skip", "bool"), ("param", "vec"), ("grad", "vec"), ("pgrad", "vec"),
             ("s_diag", "vec"), ("s_dmom", "vec"), ("s_mom", "vec")]

TRANSFORM_GRAD = Fn(
    "distributed_shampoo._transform_grad", "transform_grad", TG_PARAMS,
    "(list Q) * ParameterStats",
    subst={
        "state.diagonal_statistics.to_float()": ("s_diag", "vec"),
        "state.diagonal_momentum.to_float()": ("s_dmom", "vec"),
        "state.momentum.to_float()": ("s_mom", "vec"),
        "learning_rate": ("lr_t", "Q"),
        "_skip_preconditioning(param)": ("skip", "bool"),
        "clip_by_scaled_gradient_norm": ("clip", "Q"),
        "_EPSILON": ("eps25", "Q"),
        "preconditioner.preconditioned_grad(precond_grad, _maybe_dequantize_preconditioners(state.preconditioners))":
            ("pgrad", "vec"),
    },
    consts=dict(GRAFT, **{"callable(learning_rate)": ("false", "bool")}),
    calls={"_quantize_diagonal_statistics": ("", "vec"), "_quantize_momentum": ("", "vec")},
    records={"ParameterStats": [("diagonal_statistics", "vec"), ("statistics", None),
                                ("preconditioners", None), ("diagonal_momentum", "vec"),
                                ("momentum", "vec"), ("avg_grad", None), ("training_metrics", None)]},
    drop_params=("state",))


def generate_c02(repo):
  """Returns (coq_text, errors) for the C02 translation unit."""
  from tools import py2v, py2v_float
  header = ("From Precond Require Import Base.PyLib Base.QMat Base.PyFloat C02.Records.\n"
            "Open Scope Q_scope.\n")
  try:
    src = open(os.path.join(repo, DS)).read()
    text = py2v_float.translate(src, TRANSFORM_GRAD, ignore_assign=("preconditioner",))
    return header + "\n" + text + "\n", []
  except py2v.TranslationError as e:
    return header, [(TRANSFORM_GRAD.qual, str(e))]
  except (OSError, SyntaxError) as e:
    return header, [(TRANSFORM_GRAD.qual, repr(e))]


# ---------------------------------------------------------------------------------------------
# C01: the coupled Newton loop of matrix_inverse_pth_root (nested closures of the routine)
# ---------------------------------------------------------------------------------------------
NEWTON_STATE = "Z * mat * mat * mat * Q * Q"
NEWTON_BODY = Fn(
    "matrix_inverse_pth_root._iter_body", "newton_iter_body",
    [("alpha", "Q"), ("identity", "mat"), ("p", "positive"), ("state", NEWTON_STATE)],
    "Z * (list (list Q)) * (list (list Q)) * (list (list Q)) * Q * Q",
    calls={"mat_power": ("mpow_pos", "mat")})
NEWTON_COND = Fn(
    "matrix_inverse_pth_root._iter_condition", "newton_iter_condition",
    [("num_iters", "Z"), ("error_tolerance", "Q"), ("max_error_ratio", "Q"), ("state", NEWTON_STATE)],
    "bool")


def generate_c01(repo):
  from tools import py2v, py2v_float
  header = ("From Precond Require Import Base.PyLib Base.QMat Base.PyFloat.\nOpen Scope Q_scope.\n")
  out, errors = [header], []
  try:
    src = open(os.path.join(repo, DS)).read()
  except OSError as e:
    return header, [("read", repr(e))]
  for fn in (NEWTON_BODY, NEWTON_COND):
    try:
      out.append(py2v_float.translate(src, fn))
      out.append("")
    except py2v.TranslationError as e:
      errors.append((fn.qual, str(e)))
    except SyntaxError as e:
      errors.append((fn.qual, repr(e)))
  return "\n".join(out), errors


# ---------------------------------------------------------------------------------------------
# C16: the OGD and diagonal-AdaGrad update functions of precondition/oco/algorithms.py
# ---------------------------------------------------------------------------------------------
OCO = "precondition/oco/algorithms.py"
OGD_UPDATE = Fn("_ogd_update_fn", "ogd_update_fn",
                [("rs", "Q -> Q"), ("lr", "Q"), ("delta", "Q"), ("state_w", "vec"), ("state_t", "Q"),
                 ("grad", "vec")], "(list Q) * Q",
                subst={"hparams.lr": ("lr", "Q"), "hparams.delta": ("delta", "Q")},
                calls={"jax.lax.rsqrt": ("rs", "Q->Q")}, drop_params=("state", "loss", "hparams"))
ADA_UPDATE = Fn("_diag_adagrad_update_fn", "ada_update_fn",
                [("rs", "Q -> Q"), ("lr", "Q"), ("state_w", "vec"), ("state_diag_h", "vec"), ("grad", "vec")],
                "(list Q) * (list Q)",
                subst={"hparams.lr": ("lr", "Q")},
                calls={"jax.lax.rsqrt": ("rs", "Q->Q")}, drop_params=("state", "loss", "hparams"))


def generate_c16(repo):
  from tools import py2v, py2v_float
  header = ("From Precond Require Import Base.PyLib Base.QMat Base.PyFloat.\nOpen Scope Q_scope.\n")
  out, errors = [header], []
  try:
    src = open(os.path.join(repo, OCO)).read()
  except OSError as e:
    return header, [("read", repr(e))]
  for fn, fields in ((OGD_UPDATE, ["w", "t"]), (ADA_UPDATE, ["w", "diag_h"])):
    try:
      out.append(py2v_float.translate(src, fn, state_fields=fields, ignore_asserts=True))
      out.append("")
    except py2v.TranslationError as e:
      errors.append((fn.qual, str(e)))
    except SyntaxError as e:
      errors.append((fn.qual, repr(e)))
  return "\n".join(out), errors


# ---------------------------------------------------------------------------------------------
# C04: the scheduled preconditioner interval
# ---------------------------------------------------------------------------------------------
SCHEDULE = Fn("preconditioning_compute_steps_schedule", "compute_steps_schedule",
              [("base_lr_", "Q"), ("lr_", "Q"), ("start_preconditioning_compute_steps", "Z"),
               ("end_preconditioning_compute_steps", "Z")], "Q",
              subst={"lr_fn(0)": ("base_lr_", "Q"), "lr_fn(step)": ("lr_", "Q")},
              drop_params=("lr_fn", "step"))


def generate_c04(repo):
  from tools import py2v, py2v_float
  header = ("From Precond Require Import Base.PyLib Base.QMat Base.PyFloat.\nFrom Coq Require Import Qround.\n"
            "Open Scope Q_scope.\n")
  try:
    src = open(os.path.join(repo, DS)).read()
    return header + "\n" + py2v_float.translate(src, SCHEDULE) + "\n", []
  except py2v.TranslationError as e:
    return header, [(SCHEDULE.qual, str(e))]
  except (OSError, SyntaxError) as e:
    return header, [(SCHEDULE.qual, repr(e))]


# ---------------------------------------------------------------------------------------------
# C05: tearfree grafting combination (nested closure of _graft_with.update_fn)
# ---------------------------------------------------------------------------------------------
TFG = "precondition/tearfree/grafting.py"
MAYBE_GRAFT = Fn("_graft_with.update_fn.maybe_graft", "tf_maybe_graft",
                 [("nrm", "vec -> Q"), ("masked", "bool"), ("count", "Z"), ("start_preconditioning_step", "Z"),
                  ("graft_upd", "vec"), ("base", "vec")], "option vec",
                 subst={"_masked(base)": ("masked", "bool"), "state.count": ("count", "Z"),
                        "graft_upd.shape == base.shape": ("(Nat.eqb (length graft_upd) (length base))", "bool")},
                 calls={"jnp.linalg.norm": ("nrm", "vec->Q")}, partial=True)


def generate_c05(repo):
  from tools import py2v, py2v_float
  header = ("From Precond Require Import Base.PyLib Base.QMat Base.PyFloat.\nOpen Scope Q_scope.\n")
  try:
    src = open(os.path.join(repo, TFG)).read()
    return header + "\n" + py2v_float.translate(src, MAYBE_GRAFT) + "\n", []
  except py2v.TranslationError as e:
    return header, [(MAYBE_GRAFT.qual, str(e))]
  except (OSError, SyntaxError) as e:
    return header, [(MAYBE_GRAFT.qual, repr(e))]


# ---------------------------------------------------------------------------------------------
# C12: SM3's moving averages (closures of sm3.sm3; tensors flattened, broadcasts supplied)
# ---------------------------------------------------------------------------------------------
SM3_MA = Fn("sm3._moving_averages", "sm3_moving_averages",
            [("beta2", "Q"), ("rank_lt2", "bool"), ("acc0", "vec"), ("min_acc_", "vec"), ("grad", "vec")],
            "vec",
            subst={"grad.ndim < 2": ("rank_lt2", "bool"), "accumulators[0]": ("acc0", "vec"),
                   "functools.reduce(jnp.minimum, accumulators)": ("min_acc_", "vec")},
            drop_params=("accumulators",))
SM3_MOM = Fn("sm3._moving_averages_momentum", "sm3_moving_averages_momentum",
             [("beta1", "Q"), ("grad", "vec"), ("momentum", "vec")], "vec",
             subst={"momentum.to_float()": ("momentum", "vec")})


def generate_c12(repo):
  from tools import py2v, py2v_float
  header = ("From Precond Require Import Base.PyLib Base.QMat Base.PyFloat.\nOpen Scope Q_scope.\n")
  out, errors = [header], []
  try:
    src = open(os.path.join(repo, SM3)).read()
  except OSError as e:
    return header, [("read", repr(e))]
  for fn in (SM3_MA, SM3_MOM):
    try:
      out.append(py2v_float.translate(src, fn))
      out.append("")
    except py2v.TranslationError as e:
      errors.append((fn.qual, str(e)))
    except SyntaxError as e:
      errors.append((fn.qual, repr(e)))
  return "\n".join(out), errors


# ---------------------------------------------------------------------------------------------
# C13: batch(x, num_devices) on the list layer (jnp.stack = identity)
# ---------------------------------------------------------------------------------------------
BATCH = Fn("batch", "batch_src", [("A", "Type"), ("x", "list A"), ("num_devices", "Z")], "list (list A)",
           calls={"jnp.stack": ("", "")})


def generate_c13(repo):
  from tools import py2v
  header = "From Precond Require Import Base.PyLib Base.PyLib2.\nOpen Scope Z_scope.\n"
  try:
    src = open(os.path.join(repo, DS)).read()
    return header + "\n" + py2v.translate(src, BATCH)[0] + "\n", []
  except py2v.TranslationError as e:
    return header, [(BATCH.qual, str(e))]
  except (OSError, SyntaxError) as e:
    return header, [(BATCH.qual, repr(e))]
