#!/bin/bash
# usage: tools/verify_seed.sh Cxx  -> checks patch matches, demo on both trees, then runs the check on the worktree
id=$1
prop=${id%r[2345]}
cd /tmp/seed_$id && git diff > /tmp/cur_$id.diff; diff -q /tmp/cur_$id.diff /tmp/seedout_$id/patch.diff >/dev/null && echo "diff matches patch.diff" || echo "WARNING: worktree diff differs from patch.diff"
(PYTHONPATH=/tmp/seed_$id timeout 1200 /venv/bin/python /tmp/seedout_$id/demo.py > /tmp/demo_mod_$id.log 2>&1; echo "demo on modified tree: exit $?"; tail -1 /tmp/demo_mod_$id.log | cut -c1-200)
(PYTHONPATH=/repo timeout 1200 /venv/bin/python /tmp/seedout_$id/demo.py > /tmp/demo_orig_$id.log 2>&1; echo "demo on /repo: exit $?"; tail -1 /tmp/demo_orig_$id.log | cut -c1-200)
cd /verif && VERIF_REPO=/tmp/seed_$id ./check $prop 2>&1 | grep -E "VIOLATION|KNOWN|done|broken" | head -5
f=$(ls -t /verif/replays/${prop}_* 2>/dev/null | head -1)
[ -n "$f" ] && python3 -c "
import json; r=json.load(open('$f')); print('   latest replay:', r['kind'], r.get('check'), r.get('code'), str(r.get('actual'))[:200]); print('   ', str(r.get('input'))[:300])"
