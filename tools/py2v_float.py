"""py2v_float — extension of the fail-closed translator for straight-line jax.numpy code on
scalars and flat vectors (types 'Q' and 'vec').  Floats become exact rationals (the Python double's
value), jnp element-wise operators become the combinators of coq/theories/Base/PyFloat.v.
Used for distributed_shampoo._transform_grad (C02).  Anything unknown raises TranslationError."""
import ast
import fractions

from tools.py2v import T, Fn, TranslationError, find_def, split_tuple

VEC, Q, MAT = "vec", "Q", "mat"


def qlit(x):
  fr = fractions.Fraction(x)
  n = "(%d)" % fr.numerator if fr.numerator < 0 else "%d" % fr.numerator
  return "(%s # %d)" % (n, fr.denominator)


class FT(T):

  def __init__(self, fn, node, ignore_assign=(), ignore_calls=("logging.error", "logging.info"),
               state_fields=None, ignore_asserts=False):
    super().__init__(fn, node)
    self.ignore_assign = set(ignore_assign)
    self.ignore_calls = set(ignore_calls)
    self.state_fields = state_fields       # dict-state: state['k'] is the variable state_k
    self.ignore_asserts = ignore_asserts

  # ------------------------------------------------------------------ expressions
  def truthy(self, node):
    s, t = self.expr(node)
    if t == Q:
      return "(truthy_q %s)" % s
    if t == "bool":
      return s
    return super().truthy(node)

  def coerce(self, s, t, want):
    if t == want:
      return s
    if t == "Z" and want == Q:
      return "(inject_Z %s)" % s
    raise TranslationError("cannot use %s as %s" % (t, want))

  def expr(self, n):
    txt = ast.unparse(n)
    if txt in self.fn.subst:
      return self.fn.subst[txt]
    if txt in self.fn.consts:
      return self.fn.consts[txt]
    if isinstance(n, ast.Constant) and isinstance(n.value, float):
      return (qlit(n.value), Q)
    if isinstance(n, ast.UnaryOp) and isinstance(n.op, ast.USub):
      s, t = self.expr(n.operand)
      if t == Q:
        return ("(Qopp %s)" % s, Q)
      if t == VEC:
        return ("(vneg %s)" % s, VEC)
    if isinstance(n, ast.Attribute) and n.attr == "size":
      s, t = self.expr(n.value)
      if t == VEC:
        return ("(zlen %s)" % s, "Z")
    return super().expr(n)

  def binop(self, n):
    if isinstance(n.op, ast.Pow) and isinstance(n.right, ast.Constant) and n.right.value == 2:
      a, ta = self.expr(n.left)
      if ta == VEC:
        return ("(vv_mul %s %s)" % (a, a), VEC)
      if ta == Q:
        return ("(Qmult %s %s)" % (a, a), Q)
      raise TranslationError("** 2 on %s" % ta)
    a, ta = self.expr(n.left)
    b, tb = self.expr(n.right)
    sym = {ast.Add: "add", ast.Sub: "sub", ast.Mult: "mul", ast.Div: "div"}.get(type(n.op))
    if isinstance(n.op, ast.FloorDiv) and Q in (ta, tb):
      a2 = self.coerce(a, ta, Q)
      b2 = self.coerce(b, tb, Q)
      return ("(inject_Z (Qfloor (Qdiv %s %s)))" % (a2, b2), Q)     # Python // on floats
    if Q in (ta, tb) or VEC in (ta, tb) or MAT in (ta, tb):
      if sym is None:
        raise TranslationError("float operator %s" % ast.dump(n.op))
      if ta == "Z":
        a, ta = self.coerce(a, ta, Q), Q
      if tb == "Z":
        b, tb = self.coerce(b, tb, Q), Q
      if ta == Q and tb == Q:
        return ("(Q%s %s %s)" % ({"add": "plus", "sub": "minus", "mul": "mult", "div": "div"}[sym], a, b), Q)
      if ta == VEC and tb == VEC:
        return ("(vv_%s %s %s)" % (sym, a, b), VEC)
      if ta == VEC and tb == Q:
        return ("(vs_%s %s %s)" % (sym, a, b), VEC)
      if ta == Q and tb == VEC:
        return ("(sv_%s %s %s)" % (sym, a, b), VEC)
      if ta == MAT and tb == MAT and sym in ("add", "sub"):
        return ("(m%s %s %s)" % (sym, a, b), MAT)
      if ta == Q and tb == MAT and sym == "mul":
        return ("(mscale %s %s)" % (a, b), MAT)
      raise TranslationError("binop on %s, %s" % (ta, tb))
    r, t = super().binop(n)
    return (r + "%Z", t) if t == "Z" else (r, t)

  def compare(self, n):
    if len(n.ops) == 1:
      a, ta = self.expr(n.left)
      b, tb = self.expr(n.comparators[0])
      op = n.ops[0]
      if Q in (ta, tb):
        a = self.coerce(a, ta, Q)
        b = self.coerce(b, tb, Q)
        m = {ast.Eq: "(Qeq_bool %s %s)", ast.NotEq: "(negb (Qeq_bool %s %s))", ast.LtE: "(Qleb %s %s)",
             ast.Lt: "(Qltb %s %s)", ast.GtE: "(Qleb %s %s)", ast.Gt: "(Qltb %s %s)"}.get(type(op))
        if m is None:
          raise TranslationError("Q comparison")
        if isinstance(op, (ast.GtE, ast.Gt)):
          a, b = b, a
        return (m % (a, b), "bool")
      if ta == "Z" and tb == "Z" and isinstance(op, (ast.Is, ast.IsNot)):
        s = "(%s =? %s)" % (a, b)
        return (s + "%Z" if isinstance(op, ast.Is) else "(negb %s%%Z)" % s, "bool")
      if ta == "Z" and tb == "Z":
        r, t = super().compare(n)
        return (r + "%Z", t)
    return super().compare(n)

  def call(self, n):
    f = ast.unparse(n.func)
    args = n.args
    if f in self.fn.calls and self.fn.calls[f][0] == "":      # identity wrapper
      return self.expr(args[0])
    if f in self.fn.calls and self.fn.calls[f][1] == "Q->Q" and len(args) == 1:   # scalar oracle
      s, t = self.expr(args[0])
      head = self.fn.calls[f][0]
      if t == VEC:
        return ("(map %s %s)" % (head, s), VEC)
      if t == Q:
        return ("(%s %s)" % (head, s), Q)
      raise TranslationError("%s on %s" % (f, t))
    if f in self.fn.calls and self.fn.calls[f][1] == "vec->Q" and len(args) == 1 and not n.keywords:
      s, t = self.expr(args[0])                                  # vector -> scalar oracle (a norm)
      if t != VEC:
        raise TranslationError("%s on %s" % (f, t))
      return ("(%s %s)" % (self.fn.calls[f][0], s), Q)
    if isinstance(n.func, ast.Attribute) and n.func.attr == "astype":
      s, t = self.expr(n.func.value)
      if t == "bool":
        return ("(b2q %s)" % s, Q)
      return (s, t)
    if isinstance(n.func, ast.Attribute) and n.func.attr == "to_float":
      return self.expr(n.func.value)
    if f == "float" and len(args) == 1:
      s, t = self.expr(args[0])
      return (self.coerce(s, t, Q), Q)
    if f == "jnp.square" and len(args) == 1:
      s, t = self.expr(args[0])
      if t == VEC:
        return ("(vv_mul %s %s)" % (s, s), VEC)
      if t == Q:
        return ("(Qmult %s %s)" % (s, s), Q)
    if f == "jnp.sqrt" and len(args) == 1:
      s, t = self.expr(args[0])
      if t == VEC:
        return ("(vsqrt %s)" % s, VEC)
      if t == Q:
        return ("(sqrt_q %s)" % s, Q)
    if f == "jnp.linalg.norm" and len(args) == 1 and not n.keywords:
      s, t = self.expr(args[0])
      if t == VEC:
        return ("(vnorm %s)" % s, Q)
    if f == "jnp.ones_like" and len(args) == 1:
      s, t = self.expr(args[0])
      if t == VEC:
        return ("(vones %s)" % s, VEC)
    if f == "jnp.sign" and len(args) == 1:
      s, t = self.expr(args[0])
      if t == VEC:
        return ("(vsign %s)" % s, VEC)
    if f == "jnp.maximum" and len(args) == 2:
      a, ta = self.expr(args[0])
      b, tb = self.expr(args[1])
      if Q in (ta, tb) and {ta, tb} <= {Q, "Z"}:
        return ("(Qmax %s %s)" % (self.coerce(a, ta, Q), self.coerce(b, tb, Q)), Q)
    if f == "jnp.matmul" and len(args) == 2:
      a, ta = self.expr(args[0])
      b, tb = self.expr(args[1])
      if ta == MAT and tb == MAT:
        return ("(mmul %s %s)" % (a, b), MAT)
    if f == "jnp.max" and len(args) == 1 and isinstance(args[0], ast.Call) and \
        ast.unparse(args[0].func) == "jnp.abs" and len(args[0].args) == 1:
      a, ta = self.expr(args[0].args[0])
      if ta == MAT:
        return ("(maxabs %s)" % a, Q)
      if ta == VEC:
        return ("(maxabs_vec %s)" % a, Q)
    if f == "jnp.logical_and" and len(args) == 2:
      return ("(%s && %s)" % (self.truthy(args[0]), self.truthy(args[1])), "bool")
    if f == "jnp.logical_or" and len(args) == 2:
      return ("(%s || %s)" % (self.truthy(args[0]), self.truthy(args[1])), "bool")
    if (f == "jnp.where" and len(args) == 3 and isinstance(args[0], ast.Compare) and
        len(args[0].ops) == 1 and isinstance(args[0].ops[0], ast.Eq) and
        isinstance(args[0].comparators[0], ast.Constant) and args[0].comparators[0].value == 0 and
        ast.unparse(args[0].left) == ast.unparse(args[2]) and isinstance(args[1], ast.Constant)):
      v, tv = self.expr(args[2])
      if tv == VEC:
        # jnp.where(v == 0, c, v): element-wise zero guard
        return ("(vwhere_eq0 %s %s)" % (v, qlit(args[1].value)), VEC)
    if f == "jnp.where" and len(args) == 3:
      c = self.truthy(args[0])
      a, ta = self.expr(args[1])
      b, tb = self.expr(args[2])
      if ta == tb and ta in (Q, VEC):
        return ("(if %s then %s else %s)" % (c, a, b), ta)
    if f in self.fn.records:
      fields = self.fn.records[f]
      if n.keywords or len(args) != len(fields):
        raise TranslationError("record constructor %s arity" % f)
      parts = []
      for (fname, ftype), a in zip(fields, args):
        if ftype is None:
          continue
        s, t = self.expr(a)
        if t != ftype:
          raise TranslationError("record field %s: %s vs %s" % (fname, t, ftype))
        parts.append(s)
      return ("(Build_%s %s)" % (f.lstrip("_"), " ".join(parts)), "record:" + f)
    return super().call(n)

  # ------------------------------------------------------------------ statements
  def block(self, stmts, tail):
    if stmts:
      s = stmts[0]
      if isinstance(s, ast.Delete):
        return self.block(stmts[1:], tail)
      if isinstance(s, ast.Assert) and self.ignore_asserts:
        return self.block(stmts[1:], tail)
      if (isinstance(s, ast.Return) and self.state_fields and isinstance(s.value, ast.Name) and
          s.value.id == "state"):
        return "(" + ", ".join("state_%s" % k for k in self.state_fields) + ")"
      if isinstance(s, ast.Assign) and len(s.targets) == 1 and ast.unparse(s.targets[0]) in self.ignore_assign:
        return self.block(stmts[1:], tail)
      if isinstance(s, ast.Expr) and isinstance(s.value, ast.Call) and ast.unparse(s.value.func) in self.ignore_calls:
        return self.block(stmts[1:], tail)
      if isinstance(s, ast.If):
        t = ast.unparse(s.test)
        if t in self.fn.consts and self.fn.consts[t][0] in ("true", "false"):
          chosen = s.body if self.fn.consts[t][0] == "true" else s.orelse
          return self.block(list(chosen) + list(stmts[1:]), tail)
      if isinstance(s, ast.If) and not (self.ends_with_return(s.body) or (s.orelse and self.ends_with_return(s.orelse))):
        # an `if` whose body consists only of ignorable statements has no effect
        def ignorable(b):
          return all(isinstance(x, ast.Expr) and isinstance(x.value, ast.Call) and
                     ast.unparse(x.value.func) in self.ignore_calls for x in b)
        if s.body and ignorable(s.body) and ignorable(s.orelse):
          return self.block(stmts[1:], tail)
    return super().block(stmts, tail)

  def translate(self):
    def gt(t):
      return t.replace("vec", "(list Q)").replace("mat", "(list (list Q))")
    params = " ".join("(%s : %s)" % (n, gt(t)) for n, t in self.fn.params)
    body = self.block(self.node.body, None)
    return "Definition %s %s : %s :=\n%s." % (self.fn.name, params, self.fn.ret, body)


class _StateSubscripts(ast.NodeTransformer):
  """state['key'] -> the plain name state_key."""

  def visit_Subscript(self, n):
    self.generic_visit(n)
    if (isinstance(n.value, ast.Name) and n.value.id == "state" and isinstance(n.slice, ast.Constant)
        and isinstance(n.slice.value, str)):
      return ast.copy_location(ast.Name(id="state_" + n.slice.value, ctx=n.ctx), n)
    return n


def translate(source_text, fn, **kw):
  tree = ast.parse(source_text)
  node = find_def(tree, fn.qual)
  if kw.get("state_fields"):
    node = ast.fix_missing_locations(_StateSubscripts().visit(node))
  return FT(fn, node, **kw).translate()
