"""py2v — fail-closed translator from a whitelisted subset of Python (ast) to Gallina.

Used for the pure integer / list logic of /repo (DESIGN.md 4.1).  The output uses the helpers of
coq/theories/Base/PyLib.v.  Anything outside the whitelist raises TranslationError: the caller
then reports the corresponding proof obligation as broken (never a silent approximation).

Types are tracked lightly ('Z', 'bool', 'list Z', 'list (list Z)', 'list bool', 'list (Z * list Z)',
tuples 'A * B', 'record:<name>') because Python overloads truthiness, +, * and == on them.
"""
from __future__ import annotations

import ast
import textwrap


class TranslationError(Exception):
  pass


def elem(t):
  if not t.startswith("list "):
    raise TranslationError("not a list type: %s" % t)
  r = t[5:].strip()
  if r.startswith("(") and r.endswith(")"):
    r = r[1:-1]
  return r


def listof(t):
  return "list %s" % (t if " " not in t else "(%s)" % t)


class Fn:
  """Specification of one function to translate."""

  def __init__(self, qual, name, params, ret, subst=None, locals_=None, consts=None,
               fallthrough=None, calls=None, records=None, partial=False, drop_params=()):
    self.qual = qual            # e.g. 'Preconditioner.should_precondition_dims'
    self.name = name            # Gallina name
    self.params = params        # [(gallina_name, type)] in order (after substitution)
    self.ret = ret
    self.subst = subst or {}    # unparse(expr) -> (gallina, type)
    self.locals = locals_ or {}  # var -> type (for empty list literals etc.)
    self.consts = consts or {}  # unparse(expr) -> (gallina, type)
    self.fallthrough = fallthrough
    self.calls = calls or {}    # python callee text -> (gallina head, ret type)
    self.records = records or {}  # ctor name -> [field names]
    self.partial = partial      # asserts -> option
    self.drop_params = drop_params


def find_def(tree, qual):
  parts = qual.split(".")
  node = tree
  for p in parts:
    found = None
    for ch in ast.walk(node) if node is tree else ast.iter_child_nodes(node):
      if isinstance(ch, (ast.FunctionDef, ast.ClassDef)) and ch.name == p:
        found = ch
        break
    if found is None:
      # nested defs (functions inside functions)
      for ch in ast.walk(node):
        if isinstance(ch, (ast.FunctionDef, ast.ClassDef)) and ch.name == p and ch is not node:
          found = ch
          break
    if found is None:
      raise TranslationError("definition %s not found" % qual)
    node = found
  if not isinstance(node, ast.FunctionDef):
    raise TranslationError("%s is not a function" % qual)
  return node


def assigned_vars(stmts):
  """Names (re)bound by a statement list, in first-appearance order."""
  out = []

  def add(n):
    if n not in out:
      out.append(n)

  def tgt(t):
    if isinstance(t, ast.Name):
      add(t.id)
    elif isinstance(t, (ast.Tuple, ast.List)):
      for e in t.elts:
        tgt(e)
    elif isinstance(t, ast.Subscript) and isinstance(t.value, ast.Name):
      add(t.value.id)
    elif isinstance(t, ast.Attribute):
      add(ast.unparse(t))
    else:
      raise TranslationError("unsupported assignment target %s" % ast.dump(t))

  for s in stmts:
    for n in ast.walk(s):
      if isinstance(n, ast.Assign):
        for t in n.targets:
          tgt(t)
      elif isinstance(n, ast.AugAssign):
        tgt(n.target)
      elif isinstance(n, ast.Expr) and isinstance(n.value, ast.Call) and isinstance(
          n.value.func, ast.Attribute) and n.value.func.attr in ("append", "extend", "update"):
        add(ast.unparse(n.value.func.value))
      elif isinstance(n, ast.For):
        pass
  return out


def loop_targets(t):
  if isinstance(t, ast.Name):
    return [t.id]
  if isinstance(t, ast.Tuple):
    r = []
    for e in t.elts:
      r += loop_targets(e)
    return r
  raise TranslationError("loop target")


class T:

  def __init__(self, fn: Fn, node: ast.FunctionDef):
    self.fn = fn
    self.node = node
    self.env = {}
    for (n, t) in fn.params:
      self.env[n] = t
    self.attr_alias = {}

  # ---------------------------------------------------------------- names
  def vname(self, s):
    """Gallina identifier for a python lvalue text (self._x -> self_x)."""
    return s.replace("self._", "self_").replace("self.", "self_").replace(".", "_")

  # ---------------------------------------------------------------- exprs
  def truthy(self, node):
    s, t = self.expr(node)
    if t == "bool":
      return s
    if t == "Z":
      return "(truthy_z %s)" % s
    if t.startswith("list"):
      return "(truthy_list %s)" % s
    raise TranslationError("truthiness of type %s: %s" % (t, ast.unparse(node)))

  def expr(self, n):
    txt = ast.unparse(n)
    if txt in self.fn.subst:
      return self.fn.subst[txt]
    if txt in self.fn.consts:
      return self.fn.consts[txt]
    if isinstance(n, ast.Constant):
      if isinstance(n.value, bool):
        return ("true" if n.value else "false", "bool")
      if isinstance(n.value, int):
        return ("%d" % n.value if n.value >= 0 else "(%d)" % n.value, "Z")
      raise TranslationError("constant %r" % (n.value,))
    if isinstance(n, ast.Name):
      v = self.vname(n.id)
      if v in self.env:
        return (v, self.env[v])
      raise TranslationError("unknown name %s" % n.id)
    if isinstance(n, ast.Attribute):
      v = self.vname(txt)
      if v in self.env:
        return (v, self.env[v])
      raise TranslationError("unknown attribute %s" % txt)
    if isinstance(n, ast.UnaryOp):
      if isinstance(n.op, ast.Not):
        return ("(negb %s)" % self.truthy(n.operand), "bool")
      if isinstance(n.op, ast.USub):
        s, t = self.expr(n.operand)
        if t != "Z":
          raise TranslationError("unary minus on %s" % t)
        return ("(- %s)" % s, "Z")
      raise TranslationError("unary op")
    if isinstance(n, ast.BoolOp):
      op = "&&" if isinstance(n.op, ast.And) else "||"
      parts = [self.truthy(v) for v in n.values]
      return ("(" + (" %s " % op).join(parts) + ")", "bool")
    if isinstance(n, ast.BinOp):
      return self.binop(n)
    if isinstance(n, ast.Compare):
      return self.compare(n)
    if isinstance(n, ast.IfExp):
      c = self.truthy(n.test)
      a, ta = self.expr(n.body)
      b, tb = self.expr(n.orelse)
      if ta != tb:
        raise TranslationError("if-expression branches of different type")
      return ("(if %s then %s else %s)" % (c, a, b), ta)
    if isinstance(n, ast.List) or isinstance(n, ast.Tuple) and False:
      if not n.elts:
        raise TranslationError("empty list literal needs a declared type")
      parts = [self.expr(e) for e in n.elts]
      t0 = parts[0][1]
      if any(t != t0 for _, t in parts):
        raise TranslationError("heterogeneous list literal")
      return ("[" + "; ".join(s for s, _ in parts) + "]", listof(t0))
    if isinstance(n, ast.Tuple):
      parts = [self.expr(e) for e in n.elts]
      return ("(" + ", ".join(s for s, _ in parts) + ")", " * ".join(
          (t if " * " not in t else "(%s)" % t) for _, t in parts))
    if isinstance(n, ast.Subscript):
      return self.subscript(n)
    if isinstance(n, ast.ListComp):
      return self.listcomp(n)
    if isinstance(n, ast.Call):
      return self.call(n)
    raise TranslationError("unsupported expression: %s" % txt)

  def binop(self, n):
    a, ta = self.expr(n.left)
    b, tb = self.expr(n.right)
    op = n.op
    if ta == "Z" and tb == "Z":
      sym = {ast.Add: "+", ast.Sub: "-", ast.Mult: "*", ast.FloorDiv: "/", ast.Mod: "mod"}.get(type(op))
      if sym is None:
        raise TranslationError("int operator %s" % ast.dump(op))
      return ("(%s %s %s)" % (a, sym, b), "Z")
    if isinstance(op, ast.Add) and ta.startswith("list") and ta == tb:
      return ("(%s ++ %s)" % (a, b), ta)
    if isinstance(op, ast.Mult) and ta.startswith("list") and tb == "Z":
      # [x] * n
      if isinstance(n.left, ast.List) and len(n.left.elts) == 1:
        x, tx = self.expr(n.left.elts[0])
        return ("(repeat_z %s %s)" % (x, b), ta)
      raise TranslationError("list * int only for singleton literal")
    raise TranslationError("binop on types %s, %s: %s" % (ta, tb, ast.unparse(n)))

  def compare(self, n):
    parts = []
    left = n.left
    for op, right in zip(n.ops, n.comparators):
      a, ta = self.expr(left)
      b, tb = self.expr(right)
      if ta == "Z" and tb == "Z":
        sym = {ast.Lt: "<?", ast.LtE: "<=?", ast.Gt: ">?", ast.GtE: ">=?", ast.Eq: "=?"}.get(type(op))
        if sym:
          parts.append("(%s %s %s)" % (a, sym, b))
        elif isinstance(op, ast.NotEq):
          parts.append("(negb (%s =? %s))" % (a, b))
        else:
          raise TranslationError("comparison op")
      elif ta == "list Z" and tb == "list Z" and isinstance(op, (ast.Eq, ast.NotEq)):
        s = "(list_eqb_z %s %s)" % (a, b)
        parts.append(s if isinstance(op, ast.Eq) else "(negb %s)" % s)
      elif ta == "bool" and tb == "bool" and isinstance(op, ast.Eq):
        parts.append("(Bool.eqb %s %s)" % (a, b))
      else:
        raise TranslationError("comparison on %s, %s: %s" % (ta, tb, ast.unparse(n)))
      left = right
    if len(parts) == 1:
      return (parts[0], "bool")
    return ("(" + " && ".join(parts) + ")", "bool")

  def const_int(self, n):
    if isinstance(n, ast.Constant) and isinstance(n.value, int):
      return n.value
    if isinstance(n, ast.UnaryOp) and isinstance(n.op, ast.USub) and isinstance(
        n.operand, ast.Constant):
      return -n.operand.value
    return None

  def subscript(self, n):
    l, tl = self.expr(n.value)
    if isinstance(n.slice, ast.Slice):
      if not tl.startswith("list"):
        raise TranslationError("slice of %s" % tl)
      if n.slice.step is not None:
        raise TranslationError("slice step")
      lo = self.expr(n.slice.lower)[0] if n.slice.lower is not None else None
      hi = self.expr(n.slice.upper)[0] if n.slice.upper is not None else None
      if lo is None and hi is None:
        return (l, tl)
      if lo is None:
        return ("(slice_to %s %s)" % (l, hi), tl)
      if hi is None:
        return ("(slice_from %s %s)" % (l, lo), tl)
      return ("(slice %s %s %s)" % (l, lo, hi), tl)
    if tl.startswith("list"):
      i, ti = self.expr(n.slice)
      if ti != "Z":
        raise TranslationError("index type")
      et = elem(tl)
      d = self.default(et)
      return ("(nth_z %s %s %s)" % (l, i, d), et)
    if " * " in tl:  # tuple projection by constant index
      k = self.const_int(n.slice)
      comps = split_tuple(tl)
      if k is None or not (0 <= k < len(comps)) or len(comps) != 2:
        raise TranslationError("tuple index")
      return ("(%s %s)" % ("fst" if k == 0 else "snd", l), comps[k])
    raise TranslationError("subscript of %s" % tl)

  def default(self, t):
    if t == "Z":
      return "0"
    if t == "bool":
      return "false"
    if t.startswith("list"):
      return "[]"
    raise TranslationError("no default for %s" % t)

  def bind_target(self, target, et):
    """Pattern text for a comprehension / loop target; extends env."""
    if isinstance(target, ast.Name):
      self.env[target.id] = et
      return target.id
    if isinstance(target, ast.Tuple):
      comps = split_tuple(et)
      if len(comps) != len(target.elts):
        raise TranslationError("tuple target arity")
      return "'(" + ", ".join(self.bind_target(e, c).lstrip("'") for e, c in zip(target.elts, comps)) + ")"
    raise TranslationError("target")

  def iterable(self, it):
    """(gallina list expr, element type)."""
    if isinstance(it, ast.Call) and isinstance(it.func, ast.Name):
      f = it.func.id
      if f == "range":
        args = [self.expr(a) for a in it.args]
        if any(t != "Z" for _, t in args):
          raise TranslationError("range args")
        if len(args) == 1:
          return ("(zrange %s)" % args[0][0], "Z")
        if len(args) == 2:
          return ("(zrange2 %s %s)" % (args[0][0], args[1][0]), "Z")
        if len(args) == 3:
          return ("(zrange3 %s %s %s)" % (args[0][0], args[1][0], args[2][0]), "Z")
        raise TranslationError("range arity")
      if f == "enumerate" and len(it.args) == 1:
        l, tl = self.iterable(it.args[0])
        return ("(enumerate_z %s)" % l, "Z * %s" % (tl if " * " not in tl else "(%s)" % tl))
      if f == "zip" and len(it.args) == 2:
        a, ta = self.iterable(it.args[0])
        b, tb = self.iterable(it.args[1])
        par = lambda t: t if " * " not in t else "(%s)" % t
        return ("(zip %s %s)" % (a, b), "%s * %s" % (par(ta), par(tb)))
      if f == "reversed" and len(it.args) == 1:
        a, ta = self.iterable(it.args[0])
        return ("(rev %s)" % a, ta)
      if f == "list" and len(it.args) == 1:
        return self.iterable(it.args[0])
    if isinstance(it, ast.Call) and ast.unparse(it.func) == "itertools.product" and len(
        it.args) == 1 and isinstance(it.args[0], ast.Starred):
      l, tl = self.expr(it.args[0].value)
      return ("(cart_prod %s)" % l, elem(tl))
    s, t = self.expr(it)
    if not t.startswith("list"):
      raise TranslationError("iteration over %s" % t)
    return (s, elem(t))

  def listcomp(self, n, as_gen=False):
    if len(n.generators) != 1:
      raise TranslationError("nested comprehension")
    g = n.generators[0]
    saved = dict(self.env)
    l, et = self.iterable(g.iter)
    pat = self.bind_target(g.target, et)
    src = l
    for c in g.ifs:
      src = "(filter (fun %s => %s) %s)" % (pat, self.truthy(c), src)
    body, tb = self.expr(n.elt)
    self.env = saved
    return ("(map (fun %s => %s) %s)" % (pat, body, src), listof(tb))

  def call(self, n):
    f = ast.unparse(n.func)
    if f in self.fn.calls:
      head, rt = self.fn.calls[f]
      args = [self.expr(a)[0] for a in n.args]
      if n.keywords:
        raise TranslationError("keywords in call to %s" % f)
      return ("(%s %s)" % (head, " ".join(args)) if args else head, rt)
    if f in self.fn.records:
      fields = self.fn.records[f]
      kw = {k.arg: k.value for k in n.keywords}
      if n.args or set(kw) != set(f_ for f_, _ in fields):
        raise TranslationError("record constructor %s: fields %s" % (f, sorted(kw)))
      parts = []
      for fname, ftype in fields:
        if ftype is None:
          continue  # dropped field (debug strings)
        s, t = self.expr(kw[fname])
        if t != ftype:
          raise TranslationError("record field %s: %s vs %s" % (fname, t, ftype))
        parts.append(s)
      return ("(Build_%s %s)" % (f.lstrip("_"), " ".join(parts)), "record:" + f)
    if f == "len" and len(n.args) == 1:
      s, t = self.expr(n.args[0])
      if not t.startswith("list"):
        raise TranslationError("len of %s" % t)
      return ("(zlen %s)" % s, "Z")
    if f == "abs" and len(n.args) == 1:
      s, t = self.expr(n.args[0])
      if t != "Z":
        raise TranslationError("abs type")
      return ("(Z.abs %s)" % s, "Z")
    if f == "int" and len(n.args) == 1 and isinstance(n.args[0], ast.BinOp) and \
        isinstance(n.args[0].op, ast.Div):
      # int(a / b) on integers: true division then truncation toward zero (exact below 2^53)
      a, ta = self.expr(n.args[0].left)
      b, tb = self.expr(n.args[0].right)
      if ta != "Z" or tb != "Z":
        raise TranslationError("int(a / b) on %s, %s" % (ta, tb))
      return ("(Z.quot %s %s)" % (a, b), "Z")
    if f == "int" and len(n.args) == 1:
      s, t = self.expr(n.args[0])
      if t != "Z":
        raise TranslationError("int() of %s" % t)
      return (s, "Z")
    if f == "list" and len(n.args) == 1:
      s, t = self.expr(n.args[0])
      if not t.startswith("list"):
        raise TranslationError("list() of %s" % t)
      return (s, t)
    if f in ("min", "max"):
      kws = {k.arg: k.value for k in n.keywords}
      if len(n.args) == 2 and not kws:
        a, ta = self.expr(n.args[0])
        b, tb = self.expr(n.args[1])
        if ta != "Z" or tb != "Z":
          raise TranslationError("min/max types")
        return ("(Z.%s %s %s)" % (f, a, b), "Z")
      if len(n.args) == 1 and set(kws) == {"default"}:
        l, tl = self.expr(n.args[0])
        d, td = self.expr(kws["default"])
        if tl != "list Z" or td != "Z":
          raise TranslationError("min/max default types")
        return ("(%s_list_z %s %s)" % (f, l, d), "Z")
      raise TranslationError("min/max form")
    if f in ("sum", "math.prod", "all", "any") and len(n.args) == 1 and not n.keywords:
      a = n.args[0]
      if isinstance(a, ast.GeneratorExp):
        lc = ast.ListComp(elt=a.elt, generators=a.generators)
        s, t = self.listcomp(lc)
      else:
        s, t = self.expr(a)
      if f == "sum":
        if t == "list Z":
          return ("(sum_z %s)" % s, "Z")
        if t == "list bool":
          return ("(count_true %s)" % s, "Z")
      if f == "math.prod" and t == "list Z":
        return ("(prod_z %s)" % s, "Z")
      if f == "all" and t == "list bool":
        return ("(forallb (fun b => b) %s)" % s, "bool")
      if f == "any" and t == "list bool":
        return ("(existsb (fun b => b) %s)" % s, "bool")
      raise TranslationError("%s over %s" % (f, t))
    if f == "map" and len(n.args) == 2:
      g = ast.unparse(n.args[0])
      if g not in self.fn.calls:
        raise TranslationError("map of unknown function %s" % g)
      head, rt = self.fn.calls[g]
      l, tl = self.expr(n.args[1])
      return ("(map (%s) %s)" % (head, l), listof(rt))
    # numpy idioms (exactly these three)
    if f == "np.all" and len(n.args) == 1:
      a = n.args[0]
      if (isinstance(a, ast.Compare) and len(a.ops) == 1 and isinstance(a.ops[0], ast.Eq) and
          isinstance(a.left, ast.Call) and ast.unparse(a.left.func) == "np.array" and
          len(a.left.args) == 1):
        l, tl = self.expr(a.left.args[0])
        c, tc = self.expr(a.comparators[0])
        if tl == "list Z" and tc == "Z":
          return ("(forallb (fun x => x =? %s) %s)" % (c, l), "bool")
      raise TranslationError("np.all form")
    if f == "np.array" and len(n.args) == 1 and isinstance(n.args[0], ast.List):
      return self.expr(n.args[0])
    raise TranslationError("unsupported call: %s" % ast.unparse(n))

  def np_stmt_pattern(self, value):
    """(np.arange(n, dtype=..) + 1) * b  and  np.ones(n + 1, dtype=..) * b."""
    if isinstance(value, ast.BinOp) and isinstance(value.op, ast.Mult):
      l = value.left
      b, tb = self.expr(value.right)
      if tb != "Z":
        return None
      if (isinstance(l, ast.BinOp) and isinstance(l.op, ast.Add) and isinstance(l.left, ast.Call) and
          ast.unparse(l.left.func) == "np.arange" and len(l.left.args) == 1):
        n, tn = self.expr(l.left.args[0])
        c, tc = self.expr(l.right)
        if tn == "Z" and tc == "Z":
          return ("(map (fun k => (k + %s) * %s) (zrange %s))" % (c, b, n), "list Z")
      if isinstance(l, ast.Call) and ast.unparse(l.func) == "np.ones" and len(l.args) == 1:
        n, tn = self.expr(l.args[0])
        if tn == "Z":
          return ("(repeat_z (1 * %s) %s)" % (b, n), "list Z")
    return None

  # ---------------------------------------------------------------- statements
  def tuple_of(self, vs):
    vs = [self.vname(v) for v in vs]
    if len(vs) == 1:
      return vs[0]
    return "(" + ", ".join(vs) + ")"

  def pat_of(self, vs):
    vs = [self.vname(v) for v in vs]
    if len(vs) == 1:
      return vs[0]
    return "'(" + ", ".join(vs) + ")"

  def ends_with_return(self, stmts):
    if not stmts:
      return False
    s = stmts[-1]
    if isinstance(s, (ast.Return, ast.Raise)):
      return True
    if isinstance(s, ast.If):
      return self.ends_with_return(s.body) and bool(s.orelse) and self.ends_with_return(s.orelse)
    return False

  def wrap_ret(self, s):
    return "(Some %s)" % s if self.fn.partial else s

  def block(self, stmts, tail):
    """Translate stmts followed by `tail` (a Gallina expression text using current vars,
    or None meaning: the block must end in return)."""
    if not stmts:
      if tail is None:
        if self.fn.fallthrough is not None:
          return self.fn.fallthrough
        raise TranslationError("control falls off the end of %s" % self.fn.qual)
      return tail() if callable(tail) else tail
    s, rest = stmts[0], stmts[1:]
    if isinstance(s, ast.Expr) and isinstance(s.value, ast.Constant) and isinstance(
        s.value.value, str):
      return self.block(rest, tail)  # docstring
    if isinstance(s, ast.Pass):
      return self.block(rest, tail)
    if isinstance(s, ast.Return):
      v, t = self.expr(s.value)
      self.ret_type_seen = t
      return self.wrap_ret(v)
    if isinstance(s, ast.Raise):
      if not self.fn.partial:
        raise TranslationError("raise in total function")
      return "None"
    if isinstance(s, ast.Assert):
      if not self.fn.partial:
        raise TranslationError("assert in total function %s" % self.fn.qual)
      c = self.truthy(s.test)
      return "(if %s then %s else None)" % (c, self.block(rest, tail))
    if isinstance(s, ast.Assign):
      if len(s.targets) != 1:
        raise TranslationError("multiple assignment")
      tg = s.targets[0]
      if isinstance(tg, ast.Subscript):
        base = ast.unparse(tg.value)
        bv = self.vname(base)
        if bv not in self.env or not self.env[bv].startswith("list"):
          raise TranslationError("store into %s" % base)
        k = self.const_int(tg.slice)
        if k != -1:
          raise TranslationError("only x[-1] = v stores are supported")
        v, tv = self.expr(s.value)
        return "(let %s := set_z %s (-1) %s in\n%s)" % (bv, bv, v, self.block(rest, tail))
      if isinstance(tg, ast.Tuple):
        v, tv = self.expr(s.value)
        comps = split_tuple(tv)
        names = [self.vname(ast.unparse(e)) for e in tg.elts]
        if len(comps) != len(names):
          raise TranslationError("tuple assignment arity")
        for nm, c in zip(names, comps):
          self.env[nm] = c
        return "(let '(%s) := %s in\n%s)" % (", ".join(names), v, self.block(rest, tail))
      name = self.vname(ast.unparse(tg))
      pat = self.np_stmt_pattern(s.value)
      if pat is not None:
        v, tv = pat
      elif isinstance(s.value, ast.List) and not s.value.elts:
        tv = self.fn.locals.get(name)
        if tv is None:
          raise TranslationError("empty list for %s needs a declared local type" % name)
        v = "(@nil %s)" % elem(tv) if " " not in elem(tv) else "(@nil (%s))" % elem(tv)
      else:
        v, tv = self.expr(s.value)
      self.env[name] = tv
      return "(let %s := %s in\n%s)" % (name, v, self.block(rest, tail))
    if isinstance(s, ast.AugAssign):
      name = self.vname(ast.unparse(s.target))
      fake = ast.BinOp(left=s.target, op=s.op, right=s.value)
      v, tv = self.expr(fake)
      return "(let %s := %s in\n%s)" % (name, v, self.block(rest, tail))
    if isinstance(s, ast.Expr) and isinstance(s.value, ast.Call) and isinstance(
        s.value.func, ast.Attribute) and s.value.func.attr in ("append", "extend"):
      name = self.vname(ast.unparse(s.value.func.value))
      if name not in self.env:
        raise TranslationError("append to unknown %s" % name)
      tl = self.env[name]
      a, ta = self.expr(s.value.args[0])
      if s.value.func.attr == "append":
        if listof(ta) != tl and ta != elem(tl):
          raise TranslationError("append type %s to %s" % (ta, tl))
        return "(let %s := %s ++ [%s] in\n%s)" % (name, name, a, self.block(rest, tail))
      if ta != tl:
        raise TranslationError("extend type %s to %s" % (ta, tl))
      return "(let %s := %s ++ %s in\n%s)" % (name, name, a, self.block(rest, tail))
    if isinstance(s, ast.If):
      c = self.truthy(s.test)
      body_ret = self.ends_with_return(s.body)
      else_ret = bool(s.orelse) and self.ends_with_return(s.orelse)
      if body_ret and else_ret:
        if rest:
          raise TranslationError("dead code after if/else returning")
        return "(if %s then\n%s\nelse\n%s)" % (c, self.block(s.body, None), self.block(s.orelse, None))
      if body_ret:
        saved = dict(self.env)
        a = self.block(s.body, None)
        self.env = saved
        b = self.block(list(s.orelse) + rest, tail)
        return "(if %s then\n%s\nelse\n%s)" % (c, a, b)
      if else_ret:
        saved = dict(self.env)
        b = self.block(s.orelse, None)
        self.env = saved
        a = self.block(list(s.body) + rest, tail)
        return "(if %s then\n%s\nelse\n%s)" % (c, a, b)
      va, vb = assigned_vars(s.body), assigned_vars(s.orelse)
      # dry run of both branches to learn the types of variables they define
      saved = dict(self.env)
      self.block(s.body, lambda: "DRY")
      env_a = dict(self.env)
      self.env = dict(saved)
      self.block(s.orelse, lambda: "DRY")
      env_b = dict(self.env)
      self.env = dict(saved)
      # state of the `if`: variables live before it, or defined (with one type) by BOTH branches;
      # anything else is local to its branch (a later use then fails closed with "unknown name").
      fresh = [v for v in va if v in vb and self.vname(v) not in saved and
               env_a.get(self.vname(v)) is not None and
               env_a.get(self.vname(v)) == env_b.get(self.vname(v))]
      vs = [v for v in assigned_vars(list(s.body) + list(s.orelse))
            if self.vname(v) in saved or v in fresh]
      tup = self.tuple_of(vs)
      a = self.block(s.body, lambda: tup)
      self.env = dict(saved)
      b = self.block(s.orelse, lambda: tup)
      self.env = saved
      for v in fresh:
        self.env[self.vname(v)] = env_a[self.vname(v)]
      return "(let %s := (if %s then\n%s\nelse\n%s) in\n%s)" % (
          self.pat_of(vs), c, a, b, self.block(rest, tail))
    if isinstance(s, ast.For):
      if s.orelse:
        raise TranslationError("for/else")
      vs = assigned_vars(s.body)
      lt = loop_targets(s.target)
      # loop-carried state = variables that exist before the loop; the rest are body-local.
      vs = [v for v in vs if v not in lt and self.vname(v) in self.env]
      l, et = self.iterable(s.iter)
      saved = dict(self.env)
      pat = self.bind_target(s.target, et)
      tup = self.tuple_of(vs)
      body = self.block(s.body, tup)
      self.env = saved
      st = self.pat_of(vs)
      if not st.startswith("'"):
        stp = st
      else:
        stp = st
      return "(let %s := fold_left (fun %s %s =>\n%s) %s %s in\n%s)" % (
          st, stp, pat if pat.startswith("'") else pat, body, l, tup, self.block(rest, tail))
    raise TranslationError("unsupported statement: %s" % ast.unparse(s).split("\n")[0])

  def translate(self):
    params = " ".join("(%s : %s)" % (n, t) for n, t in self.fn.params)
    body = self.block(self.node.body, None)
    ret = self.fn.ret
    if self.fn.partial:
      ret = "option (%s)" % ret
    rt = ret[7:] if ret.startswith("record:") else ret
    return "Definition %s %s : %s :=\n%s." % (self.fn.name, params, rt.lstrip("_"), body)


def split_tuple(t):
  """Split a product type 'A * B * C' at top level."""
  out, depth, cur = [], 0, ""
  i = 0
  while i < len(t):
    ch = t[i]
    if ch == "(":
      depth += 1
    elif ch == ")":
      depth -= 1
    if depth == 0 and t[i:i + 3] == " * ":
      out.append(cur.strip())
      cur = ""
      i += 3
      continue
    cur += ch
    i += 1
  out.append(cur.strip())
  res = []
  for c in out:
    if c.startswith("(") and c.endswith(")"):
      c = c[1:-1]
    res.append(c)
  return res


def translate(source_text, fn: Fn):
  tree = ast.parse(source_text)
  node = find_def(tree, fn.qual)
  # check parameter list matches what the spec expects (fail closed on signature changes)
  argnames = [a.arg for a in node.args.args if a.arg != "self" and a.arg not in fn.drop_params]
  if node.args.vararg or node.args.kwarg or node.args.kwonlyargs:
    raise TranslationError("varargs in %s" % fn.qual)
  t = T(fn, node)
  return t.translate(), argnames
