#!/bin/bash
# Re-check every compiled property file (and everything it depends on) with the independent checker and
# record the axioms it reports.  Slow (minutes, several GB with Flocq): run by hand / thorough only.
cd /verif/coq
mods=$(ls theories/Properties/*.vo 2>/dev/null | sed 's|theories/Properties/\(.*\)\.vo|Precond.Properties.\1|')
{ echo "# coqchk -o on: $mods"; echo "# $(date -u)  $(coqchk --version 2>&1 | head -1)";
  timeout 7200 coqchk -silent -o -Q theories Precond $mods 2>&1 | sed -n '/CONTEXT SUMMARY/,$p'; } > /verif/coqchk_report.txt
tail -30 /verif/coqchk_report.txt
