"""Writes /verif/MANIFEST.json from the table below (run: /venv/bin/python -m tools.mkmanifest)."""
import json
import os

VERIF = os.path.dirname(os.path.dirname(os.path.abspath(__file__)))

# property -> (technique, level text, level note, design_ref)   (only claimed properties)
CLAIMED = {
    "C06": (
        "Coq proof (induction over the merge loop / split lists) + source-to-Gallina translator "
        "re-checked by reflexivity obligations + exhaustive bounded correspondence",
        "Theorems in coq/theories/Properties/C06.v hold for ALL shapes, block sizes, merge limits "
        "and preconditioner types (unbounded): merge_small_dims is a contiguous grouping "
        "(count/order/limit/no unit dims), split sizes are positive, <= block, sum to the dimension, "
        "ceil(d/b) many; announced preconditioner shapes = per block x per preconditioned axis in "
        "itertools.product order; exponent; slot bookkeeping total. The model they speak about is "
        "regenerated from /repo by tools/py2v.py on every run and proved equal to the reference "
        "(GenEq obligations). Tensor-level round trips (partition/merge_partitions, "
        "blockify/deblockify, merge/unmerge, identity preconditioning) are decided on the "
        "implementation by exhaustive enumeration on arange tensors up to the stated bound.",
        "Trusted: Coq 8.16.1 kernel (+vm_compute, no native_compute); no axioms (Print Assumptions: "
        "closed under the global context); tools/py2v.py translator; harness. Modelled not verified: "
        "jnp.split/concatenate/reshape/transpose (observed on arange tensors only).",
        "DESIGN.md 7/C06"),
}

NOT_YET = {}

ALL = ["C%02d" % i for i in range(1, 18)]


def main():
  checks = []
  for pid in ALL:
    if pid not in CLAIMED:
      continue
    tech, text, note, ref = CLAIMED[pid]
    checks.append(dict(
        property_id=pid,
        quick_cmd="./check %s --tier quick" % pid,
        thorough_cmd="./check %s --tier thorough" % pid,
        evidence_file="/verif/evidence/%s.json" % pid,
        replay_cmd_template="./check %s --replay {path}" % pid,
        engine="coq-proof+correspondence",
        level_claimed=dict(category="proof", text=text, design_ref=ref),
        level_note=note,
        technique=tech))
  na = [dict(property_id=p, reason=NOT_YET.get(
      p, "check not built yet in this revision (planned: DESIGN.md section 7); nothing is claimed"))
        for p in ALL if p not in CLAIMED]
  man = dict(
      version=1,
      setup_cmd="./setup.sh",
      hooks=dict(guard="PRECONDITION_VERIF", enable="no source hooks: checks observe /repo through "
                 "its public API and by wrapping jax/jnp entry points from the harness process; "
                 "PRECONDITION_VERIF=1 is exported by ./check but read by nothing in /repo",
                 baseline_off_cmd="cd /repo && /venv/bin/python -m pytest -ra -q -p no:cacheprovider "
                 "--timeout=900 --continue-on-collection-errors",
                 source_commits=[], add_only=True),
      engines=[dict(name="coq-proof+correspondence", path="/verif/check",
                    serves_properties=[c["property_id"] for c in checks],
                    kind_free_text="Coq 8.16.1 theories under coq/theories (built by setup.sh), "
                    "per-run regenerated obligations and vm_compute case files under coq/gen, "
                    "Python harness under harness/ driving the implementation in /repo")],
      checks=checks,
      notes="fix: commits in /repo: see known_findings.json (entries with status fixed). "
            "Evidence files are rewritten by every run.",
      not_applicable=na)
  with open(os.path.join(VERIF, "MANIFEST.json"), "w") as f:
    json.dump(man, f, indent=1)
  print("wrote MANIFEST.json with %d checks, %d not claimed" % (len(checks), len(na)))


if __name__ == "__main__":
  main()
