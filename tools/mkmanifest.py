"""Writes /verif/MANIFEST.json from the table below (run: /venv/bin/python -m tools.mkmanifest)."""
import json
import os

VERIF = os.path.dirname(os.path.dirname(os.path.abspath(__file__)))

# property -> (technique, level text, level note, design_ref)   (only claimed properties)
CLAIMED = {
    "C06": (
        "Coq proof (induction over the merge loop / split lists) + source-to-Gallina translator "
        "re-checked by reflexivity obligations + exhaustive bounded correspondence",
        "Theorems in coq/theories/Properties/C06.v hold for ALL shapes, block sizes, merge limits "
        "and preconditioner types (unbounded): merge_small_dims is a contiguous grouping "
        "(count/order/limit/no unit dims), split sizes are positive, <= block, sum to the dimension, "
        "ceil(d/b) many; announced preconditioner shapes = per block x per preconditioned axis in "
        "itertools.product order; exponent; slot bookkeeping total. The model they speak about is "
        "regenerated from /repo by tools/py2v.py on every run and proved equal to the reference "
        "(GenEq obligations). Tensor-level round trips (partition/merge_partitions, "
        "blockify/deblockify, merge/unmerge, identity preconditioning) are decided on the "
        "implementation by exhaustive enumeration on arange tensors up to the stated bound.",
        "Trusted: Coq 8.16.1 kernel (+vm_compute, no native_compute); no axioms (Print Assumptions: "
        "closed under the global context); tools/py2v.py translator; harness. Modelled not verified: "
        "jnp.split/concatenate/reshape/transpose (observed on arange tensors only).",
        "DESIGN.md 7/C06"),
    "C09": (
        "Coq proof (FD step/history bracket by induction, Bessel, verified LDL^T PSD checker) + "
        "step-by-step correspondence with captured SVD calls, verdicts computed in Coq on exact rationals",
        "Theorems in Properties/C09.v: for EVERY SVD answer meeting its spec (sorted non-negative "
        "spectrum, Bessel inequality - itself proved from orthonormality, reconstruction of "
        "b(B+R)+GG^T) one frequent-directions step preserves 0<=t and B <= C <= B+tI, hence every "
        "history of any length, rank k, decay b>=0, per-step ridge; tail recurrence t'=bt+rho; "
        "zero-gradient step scales sketch and tail by b; vanishing cut-offs => exact tracking; the "
        "inverted quantity is l'+t'+eps. Run-time tie: Distributed Shampoo _fd_update_root, "
        "Tearfree Sketchy _update_axis and OCO _fd_update_fn are run over generated histories with "
        "every SVD captured; chk_history (vm_compute on exact dyadics) checks per step the factor "
        "handed to the SVD, the oracle answer, the recurrence and - with the verified PSD checker "
        "(psd_check_rounded_sound) - the bracket of the implementation's own state against the exact covariance. Escaped-mass budget (k+1) t <= tr C - sum l proved at trace level (C09/Budget.v) and evaluated on optimizer states; rank-3 gradient tensors with the sketched axis first / middle / last.",
        "Trusted: Coq kernel + vm_compute; no axioms. Oracles (SVD/QR) enter as hypotheses (svd_spec) "
        "and are monitored per call to 2^-17 (f32) / 2^-40 (f64) relative; float rounding of the "
        "implementations is absorbed by these tolerances (not verified). 'rank<=k => zero cut-off' is "
        "monitored, not proved. The DS optimizer path (FD under vmap) is covered via direct calls of "
        "_fd_update_root, not through update().",
        "DESIGN.md 7/C09"),
    "C16": (
        "Coq proof (induction over the gradient sequence; reuse of the C09 FD theorems) + "
        "correspondence with oracle values verified in Coq and a certified full-matrix root",
        "Theorems in Properties/C16.v, for every history, learning rate, delta and every rsqrt oracle: "
        "OGD and diagonal-AdaGrad iterates equal their closed forms; every sketched method's last "
        "sketch row has eigenvalue zero; alpha_T = delta + f*sum rho_t^2; in the lossless case alpha "
        "stays delta and the sketch equals the exact covariance (C09), and S-AdaGrad's preconditioner "
        "X = Fm + rsqrt(delta)(I - Pi) satisfies X X (delta I + C) = I in every matrix algebra given the "
        "projector relations of an orthonormal sketch (c16_sada_lossless_is_full_adagrad); at run "
        "time the same identity is decided by a certificate. The OGD and AdaGrad update functions are "
        "TRANSLATED from source on every run (C16/Ref.v + GenEq obligations) and proved to act "
        "coordinatewise as the model steps of the closed-form theorems. Tie: generate_init_update under x64 for "
        "all six algorithms; chk_ogd / chk_ada / chk_oco / chk_full evaluated in Coq on exact dyadics. The training driver precondition/oco/train.py is probed against the update function applied row by row.",
        "Trusted: Coq kernel + vm_compute; no axioms. rsqrt/reciprocal/sqrt/SVD are oracles (values "
        "checked against their specs to 2^-40 before use). Uniqueness of the PSD inverse square root is "
        "not proved (full-matrix AdaGrad enters through a certified root). 'rank below sketch size => "
        "rho = 0' monitored, not proved.",
        "DESIGN.md 7/C16"),
    "C01": (
        "Coq proof in an arbitrary commutative ring (coupled Newton invariant, honesty of the reported "
        "error, binary exponentiation, retry loop, masks) + trace simulation of every recorded loop "
        "+ exact certificates computed in Coq",
        "Theorems in Properties/C01.v (all sizes, exponents, iteration counts): mat_power = p-th power; "
        "every Newton step keeps H^p*Ad = M, hence the reported error is exactly the residual of the "
        "iterate and never understates the residual of the returned (blended) matrix; retry loop returns "
        "the last attempt (ridge eps*10^(n-1)); padding masks are closed under the iteration; a Rayleigh "
        "quotient never exceeds a bound of the form; eigh residual identity. Tie per run: the loop body "
        "and loop condition of the coupled Newton iteration are TRANSLATED from source "
        "(tools/py2v_float.py -> C01/Ref.v, GenEq obligations by reflexivity); lax.while_loop is "
        "recorded under disable_jit and sampled transitions / every guard decision are checked "
        "against the translated functions evaluated exactly; for every returned root with error < 0.1, root_cert computes "
        "X^p(A+dI)-I exactly (zero padding, symmetry, residual <= err+slack) and maxev_ok certifies the "
        "eigenvalue estimate against a PSD-certified bound (verified LDL^T checker). LOBPCG-deflated Newton cases are certified by the same root_cert against the original matrix + ridge.",
        "Trusted: Coq kernel + vm_compute; no axioms. NOT verified: float rounding of the iteration and "
        "of eigh - the slack 2^-23 err + 2^-23 d max|X^p| + 64 n p u kappa_reg is an assumption "
        "(constant frozen after calibration). LOBPCG-deflated variant not exercised. The eigh residual "
        "identity is not proved (certificate only).",
        "DESIGN.md 7/C01"),
    "C03": (
        "Coq proof over an IEEE special-value lattice (select gate, induction over fault histories) + "
        "fault-injection correspondence through the public API with verdicts evaluated in Coq",
        "Theorems in Properties/C03.v for all values/histories: select returns old or a root whose error "
        "is finite and below the threshold (side conditions thr not NaN, err <> -Inf shown necessary by "
        "a _refuted witness); non-refresh steps keep old for every threshold; the three quantized "
        "selects move together; finite init + oracle hypothesis (finite error => finite root) => all "
        "stored preconditioners finite along every history; the old arithmetic sharded blend is "
        "refuted (0*NaN) and the where-select now in /repo satisfies the statement. Tie: NaN/Inf/0/"
        "huge/tiny gradients injected at step subsets x thresholds x eps x Newton/eigh x replicated / "
        "pmap-quantized / sharded; per transition Coq decides kept-vs-replaced from the observed error.",
        "Trusted: Coq kernel + vm_compute; no axioms. The oracle hypothesis 'finite error => finite "
        "root' is monitored on every refresh by direct kernel calls, not proved. Float magnitudes are "
        "abstracted to Q + special values.",
        "DESIGN.md 7/C03"),
    "C10": (
        "Coq proof (slot-disjointness by lia; ring identity for the compressed application; eigh as "
        "Section hypothesis) + exact correspondence on integer data under x64",
        "Theorems in Properties/C10.v: pack/unpack mutually inverse exactly when |r|+2<d (bound shown "
        "tight), consistent with the translated _precond_dim/_should_compress; applying a packed "
        "preconditioner along any axis equals multiplication by c(I-VV')+V diag(e) V' (ring identity, no "
        "orthogonality), identity when flagged; _low_rank_root denotes the stated matrix for both signs "
        "of r given an eigh answer (retained weights: _partial). Tie: pack/unpack layout for all d<=12, "
        "_precondition_block vs dense on integer gradients of rank 1..3 every axis, _low_rank_root with "
        "captured eigh.",
        "Trusted: Coq kernel + vm_compute; no axioms; eigh is an oracle (spec hypothesis, answers "
        "monitored); float comparison of _low_rank_root within 2^-44 relative.",
        "DESIGN.md 7/C10"),
    "C11": (
        "Coq proof over Q and over a bit-exact binary32 model (Flocq BinarySingleNaN with FTZ/DAZ) + "
        "bit-exact correspondence of integers, bucket bits and dequantized bits",
        "Theorems in Properties/C11.v: Q model - |q|<=N (no wrap), half-bucket error, zeros/diagonal "
        "exact, requantize fixed point; binary32 model - no_wrap_f32 and half_bucket_f32 (bound "
        "bucket*(1/2+(3N+2)2^-24), hypotheses bucket>=2^-125, N*bucket<=2^127) for both XLA division "
        "lowerings, zero and diagonal exactness; three _refuted witnesses (underflow, subnormal entry, "
        "overflow) = the open known findings. requantize_fixed_f32 is validated, not proved. Tie: "
        "QuantizedValue.from_float_value/to_float on generated float32 tensors, every exponent; stored "
        "integers and bit patterns must equal the model's.",
        "Trusted: Coq kernel + vm_compute; Flocq => stdlib axioms ClassicalDedekindReals.sig_not_dec, "
        "sig_forall_dec, FunctionalExtensionality.functional_extensionality_dep, Classical_Prop.classic "
        "(binary32 theorems only; Q theorems closed). XLA:CPU FTZ/DAZ and a/b -> a*(1/b) lowering are "
        "modelled as observed.",
        "DESIGN.md 7/C11"),
    "C12": (
        "Coq proof (induction over the gradient history with a reachable-state invariant) + exact "
        "correspondence on integer histories",
        "Theorems in Properties/C12.v for every shape of rank>=1, history and beta in (0,1]: the exact "
        "decayed second moment is <= the min over the coordinate's accumulators; with beta=1 "
        "accumulators never decrease in reachable states (refuted for an unreachable one); rank-1 SM3 "
        "is diagonal AdaGrad/RMSProp; per-coordinate step <= AdaGrad's. The list-backed step executed by "
        "the check is proved equal to the model step. Tie: sm3.sm3 through the public API, accumulators "
        "and updates compared exactly (4-bit integer gradients, beta2 in {1,1/2}) or within 2^-17. sm3._moving_averages is translated from source (GenEq) and proved equal to the model; a long-history probe (float32 / bfloat16, float64 reference) runs on the implementation.",
        "Trusted: Coq kernel + vm_compute; no axioms; sqrt in the update is compared in squared form.",
        "DESIGN.md 7/C12"),
    "C17": (
        "Coq proof (budget invariant for an arbitrary clamped proposal function, over Z; exact-arithmetic "
        "lemmas over Q) + integer correspondence against a binary32 model",
        "Theorems in Properties/C17.v: for ANY proposal function, layers, scores, base rank the repaired "
        "create_redist_dict assigns every sketched axis one rank in [1,dim] with per-group sum <= "
        "group_size*rank and no assertion fires (independent of float rounding); create_groups "
        "partitions axes by dimension; phase-1 exact-arithmetic budget; the ORIGINAL leftover loop is "
        "refuted (dims 3,3,3 rank 2 scores (1,0,0) -> 7 > 6; fixed in /repo). Tie: create_redist_dict on "
        "synthetic states, returned dictionary == binary32 model's on every instance.",
        "Trusted: Coq kernel + vm_compute; headline theorem axiom-free; binary32 model lemmas via Flocq "
        "(stdlib real axioms as in C11). score_fn float reductions observed, not modelled.",
        "DESIGN.md 7/C17"),
    "C02": (
        "Coq proof (closed forms / ordering facts of the documented update) + executable Gallina model "
        "of one parameter's update over the translator-regenerated shape logic + per-step translation "
        "validation through the public API",
        "Theorems in Properties/C02.v: statistics closed form for every history (weight 1 when beta2=1), "
        "arithmetic blend = switch, state independent of / update linear in a decoupled learning rate, "
        "warm-up and skipped parameters ignore the preconditioners, decoupled weight decay stays "
        "outside the momentum, exponent = 2k unless overridden. The executable model (C02.Model: "
        "merge, partition, per-block per-axis Gram statistics, mode products with the stored "
        "preconditioners, merge back, graft, weight decay, momenta, Nesterov, lr) uses C06.Ref for all "
        "shape logic. Tie: for every (configuration, step, leaf) Coq recomputes statistics, update "
        "and next state from the implementation's own previous state, and certifies every refreshed "
        "preconditioner as inverse p-th root of the new statistics (C01 root_cert). A few trees per run are also run under jax.pmap on 2 devices and compared replica by replica with the plain run.",
        "Trusted: Coq kernel + vm_compute; no axioms; translator for C06.Ref. The model itself is "
        "hand-written and tied by sampled correspondence (110 configurations quick); float32 rounding "
        "absorbed by tolerance 2^-17 scaled by the preconditioner chain's amplification factor; matrix "
        "roots are oracles checked by certificate (slack is an assumption as in C01). Quantized / pmap "
        "/ sharded plumbing is covered by C11/C13/C03, the sharded one-refresh lag by C04. Open finding C02-P1 (pmap on >= 2 devices with no preconditioned parameter: XLA compiler crash) is printed as KNOWN-FINDING.",
        "DESIGN.md 7/C02"),
    "C05": (
        "Coq proof (norm identities from a pointwise sqrt spec, closed forms of every graft step by "
        "induction) + public-API correspondence in every preconditioner mode",
        "Theorems in Properties/C05.v: from the start step the pre-momentum update is a non-negative "
        "multiple of the preconditioned gradient with nrm u (nrm p + eps) = nrm s nrm p (zero when p "
        "is zero); Tearfree: exact norm transplant; before the start step and for skipped parameters "
        "the graft step itself (DS applies the multiplier to skipped params too: u = s*|s|/(|s|+1e-25), "
        "stated so); closed forms of SGD / sign / AdaGrad / RMSProp / normalised variants for every "
        "history. Tie: public API with beta1=0, weight decay 0, lr=1 in full / compressed +-r / FD / "
        "int16-quantized-pmap modes and Tearfree Shampoo/Sketchy, all graft types.",
        "Trusted: Coq kernel + vm_compute; no axioms. sqrt enters as a pointwise spec hypothesis (a "
        "global one has no model over Q); AdaFactor is an optax oracle (norm/direction identity only).",
        "DESIGN.md 7/C05"),
    "C04": (
        "Coq proof (schedule automaton, induction over the step list) + bitwise changed/unchanged "
        "classification of every state leaf through the public API",
        "Theorems in Properties/C04.v for all intervals, start steps and horizons: the counter advances "
        "by one; statistics are written exactly on multiples of the statistics interval and are "
        "bit-identical otherwise; preconditioners and their metrics exactly on multiples of the "
        "(scheduled, proved >= 1) preconditioner interval, computed from the statistics written at "
        "that same step; closed forms of both version counters; the scheduled-interval formula is the "
        "stated floor expression; warm-up boundary (step < start: grafting momentum update; >= start: "
        "preconditioned) for the DS arithmetic blend and the Tearfree select; sharded mode uses the "
        "preconditioners of the incoming state (one-step lag). Tie: Distributed Shampoo (replicated and "
        "sharded), Tearfree Shampoo and Sketchy over a grid of (statistics interval, preconditioner "
        "interval, start step), fixed and lr-scheduled; the automaton must predict the changed bit of "
        "every leaf at every step; the schedule expression is compared value by value.",
        "Trusted: Coq kernel + vm_compute; no axioms. Gradients are generic so that a refresh changes "
        "the value (a refresh that reproduces identical bits would be misread as 'unchanged').",
        "DESIGN.md 7/C04"),
    "C13": (
        "Coq proof (list model of pad / batch / per-replica map / all_gather / unbatch / firstn, "
        "induction, for every device count and every number of statistics) + exhaustive correspondence "
        "of batch/unbatch + cross-device runs on forced host devices",
        "Theorems in Properties/C13.v for ALL D > 0, N, f: padding count is (-N) mod D (range, "
        "divisibility, minimality); unbatch (batch xs) = xs; the distributed computation equals map f xs "
        "on every device for every D, so any two device counts agree; padding entries are never "
        "selected; position of each statistic in the (replica, slot) layout; the sharded padding "
        "variant; squeeze on the batching axes only preserves value shapes (the old bare squeeze is "
        "refuted for 1x1 values - fixed in /repo). Tie: real batch/unbatch on tagged arrays for all N <= "
        "40, D <= 8 against the model; pmap on D forced host devices vs D = 1 with an elementwise "
        "surrogate root (bitwise on every device) and with the real roots (tolerance), full / "
        "int16-quantized / compressed; sharded variant across declared device counts.",
        "Trusted: Coq kernel + vm_compute; no axioms. XLA collectives (all_gather, pmap) are modelled "
        "as list operations and observed. With the real root kernels results across device counts "
        "agree only to rounding (XLA fuses the statistics update differently per batch size): bitwise "
        "equality is decided with a surrogate root, real-root runs are a tolerance monitor.",
        "DESIGN.md 7/C13"),
    "C08": (
        "Coq proof (non-interference of blocks / parameters in the flat statistics layout, induction "
        "over histories; per-block eigenvalue mask) + differential public-API runs (blocked tensor vs "
        "its blocks as separate leaves vs with companion leaves)",
        "Theorems in Properties/C08.v: two gradient histories that agree on block k give equal "
        "statistics, roots and preconditioned gradient on block k (ds_block_local, PreconditionerType "
        "ALL); every leaf receives the roots of its own statistics (under the named hypothesis that the "
        "root of a padded statistic restricted to its block is the root of the unpadded one - C01/C13); "
        "optimizing a blocked tensor equals optimizing its blocks separately; Tearfree's per-block "
        "eigenvalue mask is block local (the old whole-batch maximum is refuted by a witness - fixed in "
        "/repo). Tie: trees A (blocked), B (blocks as leaves), A+ (with companions, scales 1e-6..1e6), "
        "Distributed Shampoo (ragged blocks, 1-2 blocked axes) and Tearfree Shampoo; statistics "
        "bitwise, roots/updates bitwise where the same program runs, else within a conditioning slack "
        "whose bounds are certified by the PSD checker; Coq derives the block<->statistic index map "
        "from C06.Ref.",
        "Trusted: Coq kernel + vm_compute; no axioms. Hypothesis root_padding_invariant is assumed "
        "(monitored by the differential runs). Under jit XLA fuses the compared programs differently, so "
        "those comparisons are to tolerance, not bitwise.",
        "DESIGN.md 7/C08"),
    "C14": (
        "Coq proof (abstract pytree serialize/restore round trip and resume-identical by induction, "
        "conditional on a pure step and an invariant static skeleton = C07's fixed point) + bitwise "
        "resume experiments at every crash point",
        "Theorems in Properties/C14.v: restore tmpl (serialize s) = s when s and tmpl share their static "
        "skeleton; for every pure step, crash point k and history the run resumed from the serialized "
        "state equals the suffix of the uninterrupted run; the static-skeleton hypothesis follows from "
        "C07's layout fixed point; a hidden Python-side counter refutes the statement (witness). Tie: "
        "flax to_bytes -> fresh optimizer object -> from_bytes -> continue, every later update and the "
        "final state bitwise, every crash point 0..T, Distributed Shampoo (full / pmap / int16 / "
        "compressed / FD / sharded / scheduled), SM3, Tearfree Shampoo and Sketchy; cross-process "
        "resume; determinism; interleaving of two optimizers; scan for mutable closure state; the "
        "leaves flax emits equal the model's serialize on the state's layout (Coq).",
        "Trusted: Coq kernel + vm_compute; no axioms. flax/msgpack are oracles; purity of step is a "
        "hypothesis of the theorem and is what the experiments probe.",
        "DESIGN.md 7/C14"),
    "C15": (
        "Coq proof (tf_spec: linearity in the learning rate and lr-independence of the state by "
        "induction over histories, momentum chain = documented formula, unmerge o merge = id, zero "
        "padding delivers the same values, padded-root theorem) + per-step translation validation of "
        "tearfree.optimizer.tearfree through the public API",
        "Theorems in Properties/C15.v for every configuration, history and oracle answer: the update is "
        "exactly linear in lr(t) and the optimizer state does not depend on lr; the momentum / weight "
        "decay chain equals the documented order; unmerge(merge(g)) = g and merged sizes; roots meet "
        "root^(2 rank) * cov = projector onto the kept eigenspace with the per-block 1e-6 cut-off; zero "
        "padding rows leave the statistics, the roots and the values delivered for real entries "
        "unchanged (abstract algebra + concrete list-matrix versions). Tie: init/update run eagerly "
        "(float64 Shampoo, float32 Sketchy) over configurations x trees x histories; per step and leaf "
        "Coq recomputes from the implementation's own previous state everything upstream of the "
        "kernels (C06.Ref shapes, statistics, FD recurrence via C09.Model), checks stored roots / "
        "captured SVDs against their specs, then the graft / momentum / weight decay / lr chain and "
        "the next state; lr-linearity and lr-independence are checked bitwise on the implementation.",
        "Trusted: Coq kernel + vm_compute; no axioms. eigh / SVD / optax.adafactor are oracles checked "
        "per call; uniqueness of the pseudo-inverse root is a named hypothesis; steps with an eigenvalue "
        "at the cut-off or beyond the amplification cap are counted and excluded.",
        "DESIGN.md 7/C15"),
    "C07": (
        "Coq proof (layout calculus over C06.Ref: accepted configurations, init / update / sharded "
        "declarations as functions on tree structure, static metadata, leaf shapes and dtypes; "
        "fixed-point theorems by induction over the number of updates) + layout correspondence on "
        "the real optimizers (init + T updates, replicated / pmap / int16-quantized pmap / sharded)",
        "Theorems in Properties/C07.v for every configuration, parameter tree (any rank, unit dims, "
        "any parameter dtype) and number of updates k: the state layout after k updates equals the "
        "initial layout (Distributed Shampoo replicated and sharded, SM3, Tearfree); init and "
        "Tearfree's option validation never end in an internal error (only Ok or an explicit "
        "rejection); the update tree is shaped and typed like the parameters; the three sharded views "
        "(initial state, declared shapes/dtypes, partition specs) describe one tree; the pre-fix "
        "behaviours (D7, D8, D10, D11, N1, N6, N9) are refuted by witnesses under the as_is flags. "
        "Tie: for every generated (configuration, tree) - 33 pairwise-covered Distributed Shampoo "
        "options incl. parameter dtype, SM3, Tearfree - the real optimizer is run and (a) the "
        "property is evaluated on the implementation, (b) the model's Reject / Ok-layout prediction "
        "must agree leaf by leaf with the observed signatures and map every observed state layout to "
        "the observed successor.",
        "Trusted: Coq kernel + vm_compute; no axioms. Hand-written layout model tied by correspondence "
        "(sampling bounded by the pairwise generator); optax's own state layouts and Tearfree "
        "partition-spec trees are taken as observed; one dtype per parameter tree. Open findings "
        "C07-N2 (lobpcg on small statistics) and C07-N5 (sharded declarations on the empty tree) are "
        "printed as KNOWN-FINDING.",
        "DESIGN.md 7/C07"),
}

NOT_YET = {}

ALL = ["C%02d" % i for i in range(1, 18)]


def main():
  checks = []
  for pid in ALL:
    if pid not in CLAIMED:
      continue
    tech, text, note, ref = CLAIMED[pid]
    checks.append(dict(
        property_id=pid,
        quick_cmd="./check %s --tier quick" % pid,
        thorough_cmd="./check %s --tier thorough" % pid,
        evidence_file="/verif/evidence/%s.json" % pid,
        replay_cmd_template="./check %s --replay {path}" % pid,
        engine="coq-proof+correspondence",
        level_claimed=dict(category="proof", text=text, design_ref=ref),
        level_note=note,
        technique=tech))
  na = [dict(property_id=p, reason=NOT_YET.get(
      p, "check not built yet in this revision (planned: DESIGN.md section 7); nothing is claimed"))
        for p in ALL if p not in CLAIMED]
  man = dict(
      version=1,
      setup_cmd="./setup.sh",
      hooks=dict(guard="PRECONDITION_VERIF", enable="no source hooks: checks observe /repo through "
                 "its public API and by wrapping jax/jnp entry points from the harness process; "
                 "PRECONDITION_VERIF=1 is exported by ./check but read by nothing in /repo",
                 baseline_off_cmd="cd /repo && /venv/bin/python -m pytest -ra -q -p no:cacheprovider "
                 "--timeout=900 --continue-on-collection-errors",
                 source_commits=[], add_only=True),
      engines=[dict(name="coq-proof+correspondence", path="/verif/check",
                    serves_properties=[c["property_id"] for c in checks],
                    kind_free_text="Coq 8.16.1 theories under coq/theories (built by setup.sh), "
                    "per-run regenerated obligations and vm_compute case files under coq/gen, "
                    "Python harness under harness/ driving the implementation in /repo")],
      checks=checks,
      notes="fix: commits in /repo: see known_findings.json (entries with status fixed). "
            "Evidence files are rewritten by every run.",
      not_applicable=na)
  with open(os.path.join(VERIF, "MANIFEST.json"), "w") as f:
    json.dump(man, f, indent=1)
  print("wrote MANIFEST.json with %d checks, %d not claimed" % (len(checks), len(na)))


if __name__ == "__main__":
  main()
