"""Writes /verif/MANIFEST.json from the table below (run: /venv/bin/python -m tools.mkmanifest)."""
import json
import os

VERIF = os.path.dirname(os.path.dirname(os.path.abspath(__file__)))

# property -> (technique, level text, level note, design_ref)   (only claimed properties)
CLAIMED = {
    "C06": (
        "Coq proof (induction over the merge loop / split lists) + source-to-Gallina translator "
        "re-checked by reflexivity obligations + exhaustive bounded correspondence",
        "Theorems in coq/theories/Properties/C06.v hold for ALL shapes, block sizes, merge limits "
        "and preconditioner types (unbounded): merge_small_dims is a contiguous grouping "
        "(count/order/limit/no unit dims), split sizes are positive, <= block, sum to the dimension, "
        "ceil(d/b) many; announced preconditioner shapes = per block x per preconditioned axis in "
        "itertools.product order; exponent; slot bookkeeping total. The model they speak about is "
        "regenerated from /repo by tools/py2v.py on every run and proved equal to the reference "
        "(GenEq obligations). Tensor-level round trips (partition/merge_partitions, "
        "blockify/deblockify, merge/unmerge, identity preconditioning) are decided on the "
        "implementation by exhaustive enumeration on arange tensors up to the stated bound.",
        "Trusted: Coq 8.16.1 kernel (+vm_compute, no native_compute); no axioms (Print Assumptions: "
        "closed under the global context); tools/py2v.py translator; harness. Modelled not verified: "
        "jnp.split/concatenate/reshape/transpose (observed on arange tensors only).",
        "DESIGN.md 7/C06"),
    "C09": (
        "Coq proof (FD step/history bracket by induction, Bessel, verified LDL^T PSD checker) + "
        "step-by-step correspondence with captured SVD calls, verdicts computed in Coq on exact rationals",
        "Theorems in Properties/C09.v: for EVERY SVD answer meeting its spec (sorted non-negative "
        "spectrum, Bessel inequality - itself proved from orthonormality, reconstruction of "
        "b(B+R)+GG^T) one frequent-directions step preserves 0<=t and B <= C <= B+tI, hence every "
        "history of any length, rank k, decay b>=0, per-step ridge; tail recurrence t'=bt+rho; "
        "zero-gradient step scales sketch and tail by b; vanishing cut-offs => exact tracking; the "
        "inverted quantity is l'+t'+eps. Run-time tie: Distributed Shampoo _fd_update_root, "
        "Tearfree Sketchy _update_axis and OCO _fd_update_fn are run over generated histories with "
        "every SVD captured; chk_history (vm_compute on exact dyadics) checks per step the factor "
        "handed to the SVD, the oracle answer, the recurrence and - with the verified PSD checker "
        "(psd_check_rounded_sound) - the bracket of the implementation's own state against the exact covariance.",
        "Trusted: Coq kernel + vm_compute; no axioms. Oracles (SVD/QR) enter as hypotheses (svd_spec) "
        "and are monitored per call to 2^-17 (f32) / 2^-40 (f64) relative; float rounding of the "
        "implementations is absorbed by these tolerances (not verified). 'rank<=k => zero cut-off' is "
        "monitored, not proved. The DS optimizer path (FD under vmap) is covered via direct calls of "
        "_fd_update_root, not through update().",
        "DESIGN.md 7/C09"),
    "C16": (
        "Coq proof (induction over the gradient sequence; reuse of the C09 FD theorems) + "
        "correspondence with oracle values verified in Coq and a certified full-matrix root",
        "Theorems in Properties/C16.v, for every history, learning rate, delta and every rsqrt oracle: "
        "OGD and diagonal-AdaGrad iterates equal their closed forms; every sketched method's last "
        "sketch row has eigenvalue zero; alpha_T = delta + f*sum rho_t^2; in the lossless case alpha "
        "stays delta and the sketch equals the exact covariance (C09), each direction being scaled by "
        "the factor that inverts delta+s_i (_partial: the matrix-level identity X X (delta I + C) = I "
        "is decided at run time by a certificate, not proved). Tie: generate_init_update under x64 for "
        "all six algorithms; chk_ogd / chk_ada / chk_oco / chk_full evaluated in Coq on exact dyadics.",
        "Trusted: Coq kernel + vm_compute; no axioms. rsqrt/reciprocal/sqrt/SVD are oracles (values "
        "checked against their specs to 2^-40 before use). Uniqueness of the PSD inverse square root is "
        "not proved (full-matrix AdaGrad enters through a certified root). 'rank below sketch size => "
        "rho = 0' monitored, not proved.",
        "DESIGN.md 7/C16"),
}

NOT_YET = {}

ALL = ["C%02d" % i for i in range(1, 18)]


def main():
  checks = []
  for pid in ALL:
    if pid not in CLAIMED:
      continue
    tech, text, note, ref = CLAIMED[pid]
    checks.append(dict(
        property_id=pid,
        quick_cmd="./check %s --tier quick" % pid,
        thorough_cmd="./check %s --tier thorough" % pid,
        evidence_file="/verif/evidence/%s.json" % pid,
        replay_cmd_template="./check %s --replay {path}" % pid,
        engine="coq-proof+correspondence",
        level_claimed=dict(category="proof", text=text, design_ref=ref),
        level_note=note,
        technique=tech))
  na = [dict(property_id=p, reason=NOT_YET.get(
      p, "check not built yet in this revision (planned: DESIGN.md section 7); nothing is claimed"))
        for p in ALL if p not in CLAIMED]
  man = dict(
      version=1,
      setup_cmd="./setup.sh",
      hooks=dict(guard="PRECONDITION_VERIF", enable="no source hooks: checks observe /repo through "
                 "its public API and by wrapping jax/jnp entry points from the harness process; "
                 "PRECONDITION_VERIF=1 is exported by ./check but read by nothing in /repo",
                 baseline_off_cmd="cd /repo && /venv/bin/python -m pytest -ra -q -p no:cacheprovider "
                 "--timeout=900 --continue-on-collection-errors",
                 source_commits=[], add_only=True),
      engines=[dict(name="coq-proof+correspondence", path="/verif/check",
                    serves_properties=[c["property_id"] for c in checks],
                    kind_free_text="Coq 8.16.1 theories under coq/theories (built by setup.sh), "
                    "per-run regenerated obligations and vm_compute case files under coq/gen, "
                    "Python harness under harness/ driving the implementation in /repo")],
      checks=checks,
      notes="fix: commits in /repo: see known_findings.json (entries with status fixed). "
            "Evidence files are rewritten by every run.",
      not_applicable=na)
  with open(os.path.join(VERIF, "MANIFEST.json"), "w") as f:
    json.dump(man, f, indent=1)
  print("wrote MANIFEST.json with %d checks, %d not claimed" % (len(checks), len(na)))


if __name__ == "__main__":
  main()
