"""Record a confirmed seeded mutation under /verif/seeded/<name>/ (patch.diff, demo.py, notes.md, meta.json)."""
import json
import os
import shutil
import sys

name, prop, outdir, caught_by, needs, ran = sys.argv[1:7]
extra = sys.argv[7] if len(sys.argv) > 7 else ""
dst = os.path.join("/verif/seeded", name)
os.makedirs(dst, exist_ok=True)
for f in ("patch.diff", "demo.py", "notes.md"):
  if os.path.exists(os.path.join(outdir, f)):
    shutil.copy(os.path.join(outdir, f), os.path.join(dst, f))
meta = dict(property=prop, name=name, needs_to_manifest=needs, confirmed=ran, detected_by=caught_by,
            strengthening=extra,
            how_to_rerun="git -C /repo apply /verif/seeded/%s/patch.diff && (cd /verif && ./check %s); "
                         "git -C /repo checkout -- ." % (name, prop))
json.dump(meta, open(os.path.join(dst, "meta.json"), "w"), indent=1)
print("recorded", dst)
