"""py2v_gate — fail-closed translation of the preconditioner acceptance gate of
precondition/distributed_shampoo.py into Gallina over the IEEE special-value lattice C03.FloatCls.fv.

Four sites decide whether a freshly computed root replaces the stored preconditioner:
  _pmap_compute_preconditioners / _pmap_quantized_compute_preconditioners / _pjit_compute_preconditioners
      def _skip(error): jnp.logical_or(jnp.isnan(error), error >= inverse_failure_threshold).astype(..)
      def _select_preconditioner(error, new_p, old_p): lax.cond(_skip(error), lambda _: old_p, lambda _: new_p, ..)
  sharded_update_fn (inline statements)
      predicate = jnp.logical_or(jnp.isnan(errors), errors >= inverse_failure_threshold)
      new_conditional_preconditioners = jnp.where(predicate, global_stats.preconditioners, new_preconditioners)

Only this expression language is accepted (anything else raises TranslationError, reported as a broken
obligation): names, `jnp.logical_or/and`, `jnp.isnan`, `jnp.isinf`, `jnp.isfinite`, `~x`/`jnp.logical_not`,
comparisons, `.astype(..)` (identity: lax.cond / jnp.where test truthiness and astype maps True/False to 1/0),
`lax.cond(c, lambda _: a, lambda _: b, operand=None)` and `jnp.where(c, a, b)` with a per-statistic predicate
(both: `if c then a else b`), and a call of the sibling `_skip`.  The closure variable
`inverse_failure_threshold` becomes the first parameter."""
from __future__ import annotations

import ast

from tools.py2v import TranslationError, find_def

THR = "inverse_failure_threshold"
SITES = [("pmap", "_pmap_compute_preconditioners"),
         ("qpmap", "_pmap_quantized_compute_preconditioners"),
         ("pjit", "_pjit_compute_preconditioners")]
SHARDED = "sharded_update_fn"

CMP = {ast.GtE: lambda a, b: "(fleb %s %s)" % (b, a), ast.Gt: lambda a, b: "(fltb %s %s)" % (b, a),
       ast.LtE: lambda a, b: "(fleb %s %s)" % (a, b), ast.Lt: lambda a, b: "(fltb %s %s)" % (a, b)}


class G:

  def __init__(self, names, skip_name=None):
    self.names = names            # python name -> gallina name (value variables)
    self.skip_name = skip_name    # gallina head for a call of _skip

  def lam(self, n):
    if not (isinstance(n, ast.Lambda) and len(n.args.args) == 1 and not n.args.defaults):
      raise TranslationError("branch is not a one-argument lambda: %s" % ast.unparse(n))
    arg = n.args.args[0].arg
    for x in ast.walk(n.body):
      if isinstance(x, ast.Name) and x.id == arg:
        raise TranslationError("lambda uses its operand: %s" % ast.unparse(n))
    return self.val(n.body)

  def val(self, n):
    """value expression (a preconditioner): only names / attribute paths known to the caller"""
    s = ast.unparse(n)
    if s in self.names:
      return self.names[s]
    if isinstance(n, ast.Call):
      return self.cond_expr(n)
    raise TranslationError("unsupported value expression: %s" % s)

  def cond_expr(self, n):
    f = ast.unparse(n.func) if isinstance(n, ast.Call) else None
    if f == "lax.cond":
      kws = {k.arg: k.value for k in n.keywords}
      if len(n.args) != 3 or set(kws) != {"operand"} or not (
          isinstance(kws["operand"], ast.Constant) and kws["operand"].value is None):
        raise TranslationError("unsupported lax.cond form: %s" % ast.unparse(n))
      return "(if %s then %s else %s)" % (self.b(n.args[0]), self.lam(n.args[1]), self.lam(n.args[2]))
    if f == "jnp.where" and len(n.args) == 3 and not n.keywords:
      return "(if %s then %s else %s)" % (self.b(n.args[0]), self.val(n.args[1]), self.val(n.args[2]))
    raise TranslationError("unsupported call: %s" % ast.unparse(n))

  def f(self, n):
    """fv-valued expression"""
    s = ast.unparse(n)
    if s in self.names:
      return self.names[s]
    raise TranslationError("unsupported float expression: %s" % s)

  def b(self, n):
    """bool-valued expression"""
    if isinstance(n, ast.Call):
      f = ast.unparse(n.func)
      if isinstance(n.func, ast.Attribute) and n.func.attr == "astype" and len(n.args) == 1:
        return self.b(n.func.value)
      if n.keywords:
        raise TranslationError("keywords in %s" % ast.unparse(n))
      if f == "jnp.logical_or" and len(n.args) == 2:
        return "(%s || %s)" % (self.b(n.args[0]), self.b(n.args[1]))
      if f == "jnp.logical_and" and len(n.args) == 2:
        return "(%s && %s)" % (self.b(n.args[0]), self.b(n.args[1]))
      if f == "jnp.logical_not" and len(n.args) == 1:
        return "(negb %s)" % self.b(n.args[0])
      if f in ("jnp.isnan", "jnp.isinf", "jnp.isfinite") and len(n.args) == 1:
        return "(%s %s)" % (f[4:], self.f(n.args[0]))
      if f == "_skip" and self.skip_name and len(n.args) == 1:
        return "(%s %s %s)" % (self.skip_name, THR, self.f(n.args[0]))
      raise TranslationError("unsupported call: %s" % ast.unparse(n))
    if isinstance(n, ast.UnaryOp) and isinstance(n.op, (ast.Invert, ast.Not)):
      return "(negb %s)" % self.b(n.operand)
    if isinstance(n, ast.BoolOp):
      op = " || " if isinstance(n.op, ast.Or) else " && "
      return "(" + op.join(self.b(v) for v in n.values) + ")"
    if isinstance(n, ast.Compare) and len(n.ops) == 1 and type(n.ops[0]) in CMP:
      return CMP[type(n.ops[0])](self.f(n.left), self.f(n.comparators[0]))
    if isinstance(n, ast.Name) and n.id in self.names and self.names[n.id].startswith("(*bool*)"):
      return self.names[n.id][8:]
    raise TranslationError("unsupported boolean expression: %s" % ast.unparse(n))


def single_return(fd):
  body = [s for s in fd.body if not (isinstance(s, ast.Expr) and isinstance(s.value, ast.Constant))]
  lets = []
  for s in body[:-1]:
    if not (isinstance(s, ast.Assign) and len(s.targets) == 1 and isinstance(s.targets[0], ast.Name)):
      raise TranslationError("unsupported statement in %s: %s" % (fd.name, ast.unparse(s)))
    lets.append((s.targets[0].id, s.value))
  if not body or not isinstance(body[-1], ast.Return) or body[-1].value is None:
    raise TranslationError("%s does not end in a return" % fd.name)
  return lets, body[-1].value


def params_of(fd):
  a = fd.args
  if a.vararg or a.kwarg or a.kwonlyargs or a.defaults or a.posonlyargs:
    raise TranslationError("unsupported signature of %s" % fd.name)
  return [x.arg for x in a.args]


def translate_site(tree, tag, outer):
  out = []
  sk = find_def(tree, "distributed_shampoo.%s._skip" % outer)
  ps = params_of(sk)
  if len(ps) != 1:
    raise TranslationError("_skip of %s takes %d parameters" % (outer, len(ps)))
  lets, ret = single_return(sk)
  g = G({ps[0]: ps[0], THR: THR})
  body = ""
  for name, val in lets:                   # boolean lets only
    body += "let %s := %s in " % (name, g.b(val))
    g.names[name] = "(*bool*)" + name
  out.append("Definition %s_skip (%s %s : fv) : bool :=\n  %s%s." % (tag, THR, ps[0], body, g.b(ret)))
  se = find_def(tree, "distributed_shampoo.%s._select_preconditioner" % outer)
  ps = params_of(se)
  if len(ps) != 3:
    raise TranslationError("_select_preconditioner of %s takes %d parameters" % (outer, len(ps)))
  lets, ret = single_return(se)
  if lets:
    raise TranslationError("_select_preconditioner of %s has local assignments" % outer)
  g = G({ps[0]: ps[0], ps[1]: ps[1], ps[2]: ps[2], THR: THR}, skip_name="%s_skip" % tag)
  out.append("Definition %s_select {A : Type} (%s %s : fv) (%s %s : A) : A :=\n  %s."
             % (tag, THR, ps[0], ps[1], ps[2], g.val(ret)))
  return out


def translate_sharded(tree):
  fd = find_def(tree, "distributed_shampoo.%s" % SHARDED)
  pred = sel = None
  for s in fd.body:
    if isinstance(s, ast.Assign) and len(s.targets) == 1 and isinstance(s.targets[0], ast.Name):
      if s.targets[0].id == "predicate":
        if pred is not None:
          raise TranslationError("predicate assigned twice in %s" % SHARDED)
        pred = s.value
      if s.targets[0].id == "new_conditional_preconditioners":
        if sel is not None:
          raise TranslationError("new_conditional_preconditioners assigned twice in %s" % SHARDED)
        sel = s.value
  if pred is None or sel is None:
    raise TranslationError("gate statements of %s not found" % SHARDED)
  # what is stored must be exactly the selected value
  stored = [s for s in ast.walk(fd) if isinstance(s, ast.Call) and
            ast.unparse(s.func) == "GlobalShardedParameterStats"]
  if len(stored) != 1 or len(stored[0].args) != 3 or \
      ast.unparse(stored[0].args[1]) != "new_conditional_preconditioners":
    raise TranslationError("stored sharded preconditioners are not new_conditional_preconditioners")
  g = G({"errors": "errors", THR: THR})
  out = ["Definition sharded_predicate (%s errors : fv) : bool :=\n  %s." % (THR, g.b(pred))]
  g = G({"predicate": "(*bool*)(sharded_predicate %s errors)" % THR,
         "global_stats.preconditioners": "old_p", "new_preconditioners": "new_p", THR: THR})
  out.append("Definition sharded_select {A : Type} (%s errors : fv) (new_p old_p : A) : A :=\n  %s."
             % (THR, g.val(sel)))
  return out


HEADER = "From Precond Require Import C03.FloatCls.\n"


def generate(source_text):
  """Returns (coq text, [(site, error)])."""
  errors, out = [], [HEADER]
  try:
    tree = ast.parse(source_text)
  except SyntaxError as e:
    return HEADER, [("parse", repr(e))]
  for tag, outer in SITES:
    try:
      out += translate_site(tree, tag, outer)
    except TranslationError as e:
      errors.append((outer, str(e)))
  try:
    out += translate_sharded(tree)
  except TranslationError as e:
    errors.append((SHARDED, str(e)))
  return "\n".join(out) + "\n", errors


NAMES = ["pmap_skip", "pmap_select", "qpmap_skip", "qpmap_select", "pjit_skip", "pjit_select",
         "sharded_predicate", "sharded_select"]
