"""Entry point:  ./check Cxx [--tier quick|thorough] [--seed N] [--replay FILE]."""
import argparse
import importlib
import json
import os
import sys
import traceback

from harness import common


def main(argv=None):
  ap = argparse.ArgumentParser()
  ap.add_argument("pid")
  ap.add_argument("--tier", default=os.environ.get("VERIF_TIER", "quick"),
                  choices=["quick", "thorough"])
  ap.add_argument("--seed", type=int, default=int(os.environ.get("VERIF_SEED", "20260930")))
  ap.add_argument("--replay", default=None)
  a = ap.parse_args(argv)
  pid = a.pid.upper()
  mod = importlib.import_module("harness.%s" % pid.lower())
  ctx = common.Ctx(pid, a.tier, a.seed)
  try:
    if a.replay:
      rec = json.load(open(a.replay))
      rc = mod.replay(ctx, rec)
      sys.exit(rc)
    mod.run(ctx)
  except Exception as e:  # the machinery itself broke: report, never stay silent
    traceback.print_exc()
    ctx.violation("check-crashed", dict(theorem_or_check="harness exception",
                                        error=repr(e), trace=traceback.format_exc()[-4000:]),
                  no_input=True)
  sys.exit(ctx.finish())


if __name__ == "__main__":
  main()
