"""C01 — inverse p-th root is accurate and its reported error is honest.

Deciding method: Coq theorems (Properties/C01.v) over an arbitrary commutative ring: mat_power loop
= power, coupled invariant H^p Ad = M for every iterate, reported error >= residual of the returned
matrix (equality when converged), retry-loop result = last attempt, masks closed, Rayleigh quotient
<= any bound of the form.  Tie: (i) trace simulation — every lax.while_loop is recorded; Coq checks
sampled Newton transitions against the exact model step and replays every guard decision on the
recorded floats; (ii) certificates — for every returned root with reported error < 0.1 Coq
computes X^p (A + d I) - I exactly (root_cert) with d from the retry-ridge formula, and certifies
the eigenvalue estimate against a PSD-certified upper bound (maxev_ok)."""
import json
import math

import numpy as np

from harness import common
from harness.common import dylit, dylist, dymat, qlit

HEADER = ("From Precond Require Import Base.PyLib Base.QMat Base.PyFloat Base.PsdCheck C09.Check C01.Ref C01.Check.\n"
          "Open Scope Q_scope.\n")
TOL = "(1 # 1099511627776)"   # 2^-40
U64 = 2.0 ** -53
THRESH = 0.1
SLACK_CONST = 64.0            # frozen constant of DESIGN 7/C01 (calibrated need < 2)


def q(x):
  return "(dy2q %s)" % dylit(x)


def gen_cases(ctx):
  rng = ctx.rng
  quick = ctx.tier == "quick"
  ncases = 150 if quick else 900
  nmax = 5 if quick else 7
  ps = [1, 2, 3, 4, 8] if quick else [1, 2, 3, 4, 5, 6, 7, 8]
  cases = []
  for i in range(ncases):
    n = rng.rint(1, nmax)
    kind = rng.choice(["spec", "spec", "spec", "spec", "gram", "identity", "zero"])
    c = dict(seed=rng.next(), n=n, kind=kind, p=rng.choice(ps), eps=rng.choice([1e-6, 1e-6, 1e-3]),
             relative=bool(rng.below(4) != 0), eigh=bool(rng.below(3) == 0),
             pad=rng.choice([0, 0, 1, 2]), scale=10.0 ** rng.rint(-6, 6))
    if kind == "spec":
      c["rank"] = rng.rint(1, n)
      c["spread"] = 10.0 ** rng.rint(0, 8)
    if kind == "gram":
      c["rank"] = rng.rint(1, n)
    if rng.below(8) == 0:
      c["dtype"] = "f32"
    if not c["relative"]:
      # absolute ridge: keep the regularised condition number within the quantifier (<= ~1e8)
      c["scale"] = 10.0 ** rng.rint(-3, 2)
    cases.append(c)
  # LOBPCG-deflated Newton (part of the property's quantifier; jax's lobpcg needs dim > 5 k): the
  # result must be the root of the ORIGINAL matrix + ridge, where the ridge is epsilon * (largest LOBPCG
  # eigenvalue) for the relative and epsilon itself for the absolute setting (added after a seeded
  # change that scaled the absolute ridge by the LOBPCG eigenvalue was missed)
  for i in range(12 if quick else 90):
    n = rng.rint(6, 8)
    c = dict(seed=rng.next(), n=n, kind="spec", p=rng.choice([1, 2, 4] if quick else ps),
             eps=rng.choice([1e-6, 1e-3, 1e-2]), relative=bool(i % 2), eigh=False, pad=rng.choice([0, 0, 1]),
             scale=10.0 ** rng.rint(-3, 2), rank=rng.rint(2, n), spread=10.0 ** rng.rint(0, 4), lobpcg=1)
    cases.append(c)
  return cases


def ridge_used(r):
  c = r["case"]
  if c.get("lobpcg"):
    # error and result refer to original_matrix + ridge (no retry factor); relative: the metric is the
    # largest LOBPCG eigenvalue (stored as float32)
    return c["eps"] * (max(r["maxev_metric"], 1e-25) if c["relative"] else 1.0)
  if c["eigh"]:
    return c["eps"] * max(r["maxev"], 1e-6)
  retries = int(r["retries"])
  return c["eps"] * max(r["maxev"], 1e-25) * (10.0 ** max(retries - 1, 0))


def analyse(r):
  """Python-side (untrusted) quantities: ridge, slack, proposed eigenvalue bound."""
  c = r["case"]
  A = np.array(r["A"])
  X = np.array(r["X"])
  N, s, p = r["N"], r["s"], c["p"]
  d = ridge_used(r)
  lam = np.array(r["lam"])
  lmax = float(lam.max()) if len(lam) else 0.0
  lmin = float(lam.min()) if len(lam) else 0.0
  kappa = 2.0 * (lmax + d) / max(lmin + d, 1e-300)
  xp = np.linalg.matrix_power(X, p)
  slack = (2.0 ** -23) * r["err"] + (2.0 ** -23) * d * float(np.abs(xp).max()) + \
      SLACK_CONST * N * p * U64 * kappa
  ev = np.linalg.eigvalsh((A + A.T) / 2)
  lam_ub = float(max(ev.max(), 0.0)) * (1 + 1e-9) + 1e-300
  return dict(d=d, kappa=kappa, slack=slack, tau_sym=SLACK_CONST * N * p * U64 * kappa, lam_ub=lam_ub)


def terms_for(r, an):
  c = r["case"]
  N, s, p = r["N"], r["s"], c["p"]
  out = []
  f64 = c.get("dtype") != "f32"
  if f64 and r["err"] < THRESH and r["finite"]:
    out.append(("cert", "root_cert %s %s %s %s %d%%nat %d%%nat %d%%positive (dymat %s) (dymat %s)" % (
        q(an["tau_sym"]), q(an["slack"]), q(r["err"]), q(an["d"]), N, s, p,
        dymat(r["X"]), dymat(r["A"]))))
  elif r["finite"]:
    # structural part only (float32 inputs, or error above the acceptance threshold)
    out.append(("struct", "if is_square %d%%nat (dymat %s) && zero_outside %d%%nat (dymat %s) then 0%%Z else 1%%Z"
                % (N, dymat(r["X"]), s, dymat(r["X"]))))
  if c["relative"] and c.get("lobpcg"):
    # the LOBPCG estimate (float32 metric) must not exceed the true largest eigenvalue
    out.append(("maxev", "if maxev_ok %s %s %s %d%%nat (dymat %s) then 0%%Z else 1%%Z" % (
        "(1 # 1048576)", q(r["maxev_metric"]), q(an["lam_ub"]), N, dymat(masked(r)))))
  elif c["relative"] and "maxev" in r:
    eps = "(1 # 1099511627776)"   # float64 estimate: (1 + 2^-40)
    out.append(("maxev", "if maxev_ok %s %s %s %d%%nat (dymat %s) then 0%%Z else 1%%Z" % (
        eps, q(r["maxev"]), q(an["lam_ub"]), N, dymat(r["A"]))))
    if "pi_vin" in r and f64:
      out.append(("rayleigh", "if rayleigh_ok %s (dymat %s) (dyvec %s) %s then 0%%Z else 1%%Z" % (
          TOL, dymat(masked(r)), dylist(r["pi_vin"]), q(r["pi_s"]))))
  for t in r.get("transitions", []):
    if not all(math.isfinite(x) for x in (t["err"], t["err2"], t["ratio2"])) or t["err"] == 0.0:
      continue
    out.append(("trans", "if newton_transition_ok %s %d%%nat %d%%nat %d%%positive %s (%d)%%Z (dymat %s) (dymat %s) %s "
                "(dymat %s) (dymat %s) (dymat %s) %s %s (%d)%%Z then 0%%Z else 1%%Z" % (
                    TOL, N, s if (c.get("pad") or c.get("force_ps")) else N, p, q(r["alpha"]), t["i"],
                    dymat(t["M"]), dymat(t["H"]), q(t["err"]), dymat(t["M2"]), dymat(t["H2"]),
                    dymat(t["Hold2"]), q(t["err2"]), q(t["ratio2"]), t["i2"])))
  for g in r.get("guards", []):
    items = "; ".join("(%d%%Z, %s, %s)" % (i, q(e), q(ra)) for i, e, ra in g
                      if math.isfinite(e) and math.isfinite(ra))
    if len([1 for i, e, ra in g if math.isfinite(e) and math.isfinite(ra)]) != len(g):
      continue
    # all states but the last satisfy the (translated) loop condition, the last does not
    out.append(("guard",
                "let l := [%s] in if forallb (fun '(i, e, ra) => guard_s 100 i %s %s e ra) (removelast l) && "
                "negb (let '(i, e, ra) := last l (0%%Z, 0, 0) in guard_s 100 i %s %s e ra) then 0%%Z else 1%%Z"
                % (items, q(1e-6), q(1.2), q(1e-6), q(1.2))))
  return out


def masked(r):
  A = np.array(r["A"])
  s = r["s"]
  ix = (np.arange(r["N"]) < s).astype(np.float64)
  return (A * ix[None, :] * ix[:, None]).tolist()


def run_impl(cases):
  n = common.NPROC
  chunks = [c for c in (cases[i::n] for i in range(n)) if c]
  res = common.run_workers_parallel("harness.impl.c01_worker", [dict(cases=c) for c in chunks],
                                    x64=True, timeout=3000)
  return [r for o in res for r in o["results"]]


def impl_oracle(r, an):
  """Checks done on the implementation's outputs outside Coq (bookkeeping only)."""
  bad = []
  c = r["case"]
  if not r["finite"] and r["err"] < THRESH:
    bad.append("non-finite root with reported error below the threshold")
  if not c["eigh"] and r["N"] > 1:
    os_ = r.get("outer_states", [])
    if os_:
      tries = len(os_) - 1
      if int(r["retries"]) != tries:
        bad.append("total_retries %s != number of attempts %d" % (r["retries"], tries))
      for k, (i, err, failed) in enumerate(os_[1:], 1):
        if k < tries and not (err > 0.05):
          bad.append("retry loop continued after an attempt with error <= 0.05")
      if tries < 6 and os_[-1][1] > 0.05:
        bad.append("retry loop stopped early although the last error exceeds 0.05")
    if c["relative"] and not c.get("lobpcg") and abs(r["maxev_metric"] - r["maxev"]) > 2.0 ** -22 * abs(r["maxev"]) + 1e-300:
      bad.append("max_eigen_value metric disagrees with power_iteration (float32 rounding aside)")
  return bad


def translator_obligations(ctx):
  """Regenerate the translation of the Newton loop closures from /repo and re-prove it equal to
  C01.Ref (the functions the trace simulation executes)."""
  from tools import targets
  text, errors = targets.generate_c01(common.REPO)
  ctx.cov["obligations"] += 3
  if errors:
    ctx.proof_failure("translate matrix_inverse_pth_root._iter_body/_iter_condition", json.dumps(errors))
    return
  ok, out = ctx.gen_obligation("Gen", text)
  if not ok:
    ctx.proof_failure("compile gen/C01/Gen.v (translation of the Newton loop)", out[-2000:])
    return
  ctx.cov["discharged"] += 1
  for fn in (targets.NEWTON_BODY, targets.NEWTON_COND):
    names = " ".join(n for n, _ in fn.params)
    ob = ("From Precond Require Import Base.PyLib Base.QMat Base.PyFloat.\nFrom Precond Require C01.Ref.\n"
          "From PrecondGen Require C01.Gen.\n"
          "Lemma gen_eq_%s : forall %s, C01.Gen.%s %s = C01.Ref.%s %s.\nProof. intros. reflexivity. Qed.\n"
          % (fn.name, names, fn.name, names, fn.name, names))
    ok, out = ctx.gen_obligation("GenEq_" + fn.name, ob)
    if ok:
      ctx.cov["discharged"] += 1
    else:
      ctx.proof_failure("GenEq_%s (Gen = Ref)" % fn.name, out[-2000:])


def run(ctx):
  ctx.cov["rule"] = (
      "PSD matrices A = Q diag(lambda) Q^T with prescribed spectrum (n 1..5/8, rank 1..n, spread "
      "1..1e8, scale 1e-6..1e6, zero padding 0..2) plus zero / identity / integer Gram matrices x "
      "p x ridge epsilon x relative/absolute ridge x {Newton, eigh} x {float64, float32}; distinct by "
      "generator parameters; non-trivial when n > 1 and the matrix is not a multiple of the identity")
  ctx.assumptions += [
      "Coq 8.16.1 kernel + vm_compute",
      "rounding slack = 2^-23 err + 2^-23 d max|X^p| + 64 n p u kappa_reg is an ASSUMPTION (constant "
      "64 frozen after calibration on the unchanged tree: measured need < 2); kappa_reg from the "
      "generator's prescribed spectrum with a factor-2 margin",
      "trace capture replaces jax.lax.while_loop by a Python loop under jax.disable_jit (same ops)",
      "LOBPCG-deflated variant is not exercised (lobpcg_standard is an oracle)"]
  ctx.proofs(["Properties/C01.v"], extra_targets=["theories/C01/Check.vo"], dirs=["C09"])
  translator_obligations(ctx)
  cases = gen_cases(ctx)
  ctx.log("%d matrices" % len(cases))
  results = run_impl(cases)
  terms, idx = [], []
  ans = {}
  for i, r in enumerate(results):
    if "exc" in r:
      continue
    an = analyse(r)
    ans[i] = an
    for name, t in terms_for(r, an):
      terms.append(t)
      idx.append((i, name))
  ctx.log("%d Coq evaluations" % len(terms))
  vals = ctx.coq_eval("c01", HEADER, terms, per_shard=40, timeout=1800, salvage=True, term_timeout=600)
  fails = {}
  counts = {}
  inconclusive = 0
  for (i, name), v in zip(idx, vals):
    if v == "TIMEOUT":
      inconclusive += 1
      ctx.count("coq:inconclusive(time limit)")
      continue
    code = int(v.replace("%Z", "").strip("()"))
    counts[name] = counts.get(name, 0) + 1
    if code != 0:
      fails.setdefault(i, []).append((name, code))
  for k, v in counts.items():
    ctx.count("coq:" + k, v)
  if inconclusive * 20 > max(1, len(vals)):
    ctx.violation("check-degenerate", dict(theorem_or_check="more than 5%% of the Coq evaluations hit the "
                                           "time limit (%d of %d)" % (inconclusive, len(vals))), no_input=True)
  seen = set()
  for i, r in enumerate(results):
    c = r["case"]
    key = json.dumps(c, sort_keys=True)
    if "exc" in r:
      ctx.case(key, False)
      sig = ("exc", r["exc"][:60])
      if sig not in seen:
        seen.add(sig)
        ctx.violation("impl-violates", dict(input=c, expected="routine returns", actual=r["exc"],
                                            trace=r.get("trace"),
                                            theorem_or_check="harness/impl/c01_worker.py"))
      continue
    an = ans[i]
    ctx.case(key, c["n"] > 1 and c["kind"] not in ("identity", "zero"),
             sample=dict(case=c, err=r["err"], d=an["d"], slack=an["slack"])
             if ctx.cov["evaluations"] % 31 == 0 else None)
    ctx.count("%s/%s/%s" % ("eigh" if c["eigh"] else "newton", c["kind"], c.get("dtype", "f64")))
    ctx.count("accepted(err<0.1)" if r["err"] < THRESH else "rejected(err>=0.1)")
    problems = [(n, cd) for n, cd in fails.get(i, [])]
    for msg in impl_oracle(r, an):
      problems.append(("bookkeeping:" + msg, 1))
    for name, code in problems:
      sig = (name, code, c["eigh"])
      if sig in seen:
        continue
      seen.add(sig)
      kind = "correspondence-broken" if name in ("trans", "guard", "rayleigh") else "impl-violates"
      desc = {("cert", 1): "root not zero on padding / wrong shape", ("cert", 2): "root not symmetric within slack",
              ("cert", 3): "entrywise residual of X^p (A + d I) - I exceeds reported error + slack",
              ("struct", 1): "root not zero on padding / wrong shape",
              ("maxev", 1): "largest-eigenvalue estimate exceeds the certified largest eigenvalue",
              ("trans", 1): "recorded Newton transition is not an approximate execution of the model step",
              ("guard", 1): "recorded loop guard decisions differ from the model guard",
              ("rayleigh", 1): "power-iteration value is not the Rayleigh quotient of its iterate"}.get(
                  (name, code), name)
      ctx.violation(kind, dict(input=c, check=name, code=code, expected="0", actual=desc,
                               reported_err=r["err"], ridge=an["d"], slack=an["slack"],
                               theorem_or_check="C01.Check (%s); theorems c01_*" % name),
                    no_input=False)


def replay(ctx, rec):
  c = rec.get("input")
  if not isinstance(c, dict) or "kind" not in c:
    print("replay: nothing executable in this record")
    return 1
  ctx.proofs(["Properties/C01.v"], extra_targets=["theories/C01/Check.vo"], dirs=["C09"])
  r = run_impl([c])[0]
  if "exc" in r:
    print(r["exc"])
    print("REPLAY reproduces")
    return 1
  an = analyse(r)
  ts = terms_for(r, an)
  vals = ctx.coq_eval("replay", HEADER, [t for _, t in ts], per_shard=40)
  bad = [(n, v) for (n, _), v in zip(ts, vals) if v not in ("0%Z", "0")] + impl_oracle(r, an)
  print("err", r["err"], "d", an["d"], "slack", an["slack"], "failing:", bad)
  print("REPLAY %s" % ("reproduces" if bad else "does not reproduce"))
  return 1 if bad else 0
