"""C16 — OCO algorithms match closed forms; lossless S-AdaGrad is full-matrix AdaGrad.

Deciding method: Coq theorems (Properties/C16.v): OGD / diagonal AdaGrad closed forms for every
history and every rsqrt oracle (induction), last sketch row zero, alpha_T = delta + sum rho^2,
lossless => alpha = delta and sketch exact (C09).  Tie: generate_init_update(...) is run under x64
over generated sequences, SVD calls captured; Coq (vm_compute, exact dyadics) checks oracle values
against their specs and then the implementation's states against closed forms / the step model;
for rank-deficient histories every S-AdaGrad step is compared with full-matrix AdaGrad through a
certified inverse square root (Y PSD by the verified checker, Y Y (delta I + C) ~ I)."""
import json

from harness import common
from harness.common import dylit, dylist, dymat

HEADER = ("From Precond Require Import Base.QMat Base.PsdCheck C09.Model C09.Check C16.Model C16.Check.\n"
          "Open Scope Q_scope.\n")
TOL = "(1 # 1099511627776)"        # 2^-40, float64 results
TOL_FULL = "(1 # 4294967296)"      # 2^-32 for the eigh-based full-matrix comparison

KIND = {"S_ADA": 0, "RFD_SON": 1, "FD_SON": 2, "ADA_FD": 3}
CODES = {1: "sketch update factor / row handed to the SVD wrong", 2: "captured SVD answer violates spec",
         3: "new sketch (P, e) is not the deflated SVD answer / last row not zero",
         4: "alpha recurrence alpha' = alpha + f rho^2 violated", 5: "inverted values violate their spec",
         6: "iterate w does not follow the documented update", 7: "alpha_T != delta + f sum rho^2",
         8: "proposed full-matrix root not PSD", 9: "proposed full-matrix root fails Y Y (dI+C) = I",
         10: "S-AdaGrad iterate differs from full-matrix AdaGrad's on a lossless history"}


CLOSED_CODES = {1: "oracle value list has the wrong length", 2: "claimed rsqrt values violate their spec",
                3: "step counter / diagonal accumulator differs from the closed form",
                4: "iterate w differs from the closed form"}


def q(x):
  return "(dy2q %s)" % dylit(x)


def dv(v):
  return "(dyvec %s)" % dylist(v)


def vecs(rows):
  return "[" + "; ".join(dv(r) for r in rows) + "]"


def terms_for(r):
  c = r["case"]
  name = c["algo"]
  n = r["n"]
  out = []
  if name == "OGD":
    out.append(("closed", "chk_ogd %s %s %s %d%%nat %s %s %s %s" % (
        TOL, q(c["lr"]), q(c["delta"]), n, vecs(r["G"]), dv(r["rv"]), dv(r["w"]), q(r["t"]))))
  elif name == "ADA":
    out.append(("closed", "chk_ada %s %s %s %d%%nat %s %s %s %s" % (
        TOL, q(c["lr"]), q(c["delta"]), n, vecs(r["G"]), vecs(r["rv"]), dv(r["w"]), dv(r["h"]))))
  else:
    recs = "; ".join(
        "(mkorec %s %s %s %s %s %s %s %s %s %s %s %s)" % (
            dv(s["g"]), dv(s["gin"]), q(s["fac"]), q(s["aux"]), dv(s["s"]), vecs(s["vt"]),
            vecs(s["P"]), dv(s["e"]), q(s["alpha"]), dv(s["w"]), dv(s["inv"]), q(s["inv_alpha"]))
        for s in r["steps"])
    out.append(("steps", "chk_oco %d%%Z %s %s %s %d%%nat %d%%nat [%s]" % (
        KIND[name], TOL, q(c["lr"]), q(c["delta"]), n, r["ell"], recs)))
    if r.get("full"):
      steps = "; ".join("(%s, dymat %s, %s)" % (dv(f["g"]), dymat(f["Y"]), dv(f["w"]))
                        for f in r["full"])
      out.append(("full", "chk_full %s %s %s %d%%nat [%s]" % (
          TOL_FULL, q(c["lr"]), q(c["delta"]), n, steps)))
  return out


def gen_cases(ctx):
  rng = ctx.rng
  quick = ctx.tier == "quick"
  n = 14 if quick else 120
  hk = ["normal", "int", "lowrank", "zero_mixed", "scale"]
  cases = []
  for i in range(n):
    for algo in ["OGD", "ADA"]:
      cases.append(dict(algo=algo, seed=rng.next(), d=rng.rint(2, 6), T=rng.rint(1, 10),
                        hist=hk[i % 5], delta=rng.choice([0.0, 0.5, 1e-3, 2.0]),
                        lr=rng.choice([0.25, 0.125, 1.0, 0.3])))
    for algo in ["S_ADA", "ADA_FD", "RFD_SON", "FD_SON"]:
      d = rng.rint(3, 6)
      cases.append(dict(algo=algo, seed=rng.next(), d=d, ell=rng.rint(2, min(4, d)),
                        T=rng.rint(1, 6 if quick else 10), hist=hk[i % 5],
                        delta=rng.choice([0.5, 1e-3, 2.0] + ([0.0] if algo in ("S_ADA",) else [])),
                        lr=rng.choice([0.25, 0.125, 0.5])))
    # lossless clause: rank below the sketch size, delta > 0
    d = rng.rint(3, 6)
    ell = rng.rint(3, min(5, d)) if d >= 3 else 2
    cases.append(dict(algo="S_ADA", seed=rng.next(), d=d, ell=ell, T=rng.rint(2, 6 if quick else 10),
                      hist="lowrank", rank_slack=rng.below(2) if ell > 2 else 0,
                      delta=rng.choice([0.5, 1.0, 0.125]), lr=rng.choice([0.25, 0.5]), lossless=True))
  return cases


def run_impl(cases):
  n = common.NPROC
  chunks = [c for c in (cases[i::n] for i in range(n)) if c]
  res = common.run_workers_parallel("harness.impl.c16_worker", [dict(cases=c) for c in chunks],
                                    x64=True, timeout=3000)
  return [r for o in res for r in o["results"]]


def evaluate(ctx, results, tag):
  terms, idx = [], []
  for i, r in enumerate(results):
    if "exc" in r:
      continue
    try:
      ts = list(terms_for(r))
    except ValueError as e:      # NaN / Inf has no dyadic form: reported with the case as failing input
      r["exc"] = "non-finite value in the implementation's output for finite input (%s)" % e
      continue
    for name, t in ts:
      terms.append(t)
      idx.append((i, name))
  vals = ctx.coq_eval(tag, HEADER, terms, per_shard=10, timeout=1800)
  for (i, name), v in zip(idx, vals):
    results[i].setdefault("codes", {})[name] = int(v.replace("%Z", "").strip("()"))
  return results


def report(ctx, results):
  seen = set()
  for r in results:
    c = r["case"]
    key = json.dumps(c, sort_keys=True)
    if "exc" in r:
      ctx.case(key, False)
      ctx.count("exception")
      sig = ("exc", c["algo"], r["exc"][:50])
      if sig not in seen:
        seen.add(sig)
        ctx.violation("impl-violates", dict(input=c, expected="init/update run", actual=r["exc"],
                                            trace=r.get("trace"),
                                            theorem_or_check="harness/impl/c16_worker.py"))
      continue
    lossless_ok = True
    if c.get("lossless"):
      # the clause applies only when the history really is lossless (all rho ~ 0): monitored
      rhos = [f["rho"] for f in r["full"]]
      scale = max([abs(x) for g in r["G"] for x in g] + [1e-300])
      lossless_ok = all(abs(x) <= 1e-7 * scale for x in rhos)
      ctx.count("lossless_applicable" if lossless_ok else "lossless_not_applicable(rho>0)")
    ctx.case(key, len(r["G"]) > 1,
             sample=dict(case=c, codes=r.get("codes")) if ctx.cov["evaluations"] % 13 == 0 else None)
    ctx.count("%s/%s" % (c["algo"], c["hist"]))
    for name, code in r.get("codes", {}).items():
      if code == 0:
        continue
      if name == "full" and not lossless_ok:
        continue
      step, cc = divmod(code, 100)
      sig = (c["algo"], name, cc)
      if sig in seen:
        continue
      seen.add(sig)
      kind = "correspondence-broken" if cc in (2,) else "impl-violates"
      ctx.violation(kind, dict(input=c, check=name, step=step, code=cc,
                               expected="check returns 0",
                               actual=(CLOSED_CODES if name == "closed" else CODES).get(
                                   cc, "state mismatch (code %d)" % cc),
                               theorem_or_check="C16.Check.%s; theorems c16_*" % (
                                   {"closed": "chk_ogd/chk_ada", "steps": "chk_oco",
                                    "full": "chk_full"}[name])))


def driver_probe(ctx):
  """precondition/oco/train.py: the compiled driver's checkpoints must equal the bound update function
  applied row by row in order (several observation chunks; linear loss so that the gradient is the row).
  Implementation-side only (added after a seeded change that indexed the rows by the chunk-local loop
  counter was missed)."""
  cases = []
  for i, (algo, ell, num_obs) in enumerate([("OGD", 0, 2), ("OGD", 0, 4), ("ADA", 0, 3), ("ADA", 0, 5),
                                           ("S_ADA", 3, 4), ("RFD_SON", 3, 3)]):
    cases.append(dict(id=i, algo=algo, ell=ell, num_obs=num_obs, d=4, n=12, delta=0.5, lr=0.25,
                      seed=ctx.rng.next()))
  res = common.run_worker("harness.impl.c16_driver_worker", dict(cases=cases), x64=True, timeout=1800)["results"]
  for c, r in zip(cases, res):
    ctx.count("driver probes")
    if "exc" in r:
      ctx.violation("impl-violates", dict(input=c, expected="the training driver runs", actual=r["exc"],
                                          trace=r.get("trace"), theorem_or_check="driver probe (c16_driver_worker)"))
    elif not r["worst"] <= 1e-9 or r["n_hist"] != r["obs"]:
      ctx.violation("impl-violates", dict(
          input=c, expected="checkpoints of the compiled driver == update function applied to rows 0..n-1 in "
          "order (1e-9 relative), row counter == observation index", actual=r,
          theorem_or_check="driver probe (c16_driver_worker); closed forms c16_*"))


def translator_obligations(ctx):
  """Regenerate the translation of _ogd_update_fn / _diag_adagrad_update_fn from /repo and re-prove it
  equal to C16.Ref (linked to the model steps by c16_*_update_is_model_step)."""
  from tools import targets
  text, errors = targets.generate_c16(common.REPO)
  ctx.cov["obligations"] += 3
  if errors:
    ctx.proof_failure("translate oco _ogd_update_fn/_diag_adagrad_update_fn", json.dumps(errors))
    return
  ok, out = ctx.gen_obligation("Gen", text)
  if not ok:
    ctx.proof_failure("compile gen/C16/Gen.v (translation of the OCO update functions)", out[-2000:])
    return
  ctx.cov["discharged"] += 1
  for fn in (targets.OGD_UPDATE, targets.ADA_UPDATE):
    names = " ".join(n for n, _ in fn.params)
    ob = ("From Precond Require Import Base.PyLib Base.QMat Base.PyFloat.\nFrom Precond Require C16.Ref.\n"
          "From PrecondGen Require C16.Gen.\n"
          "Lemma gen_eq_%s : forall %s, C16.Gen.%s %s = C16.Ref.%s %s.\nProof. intros. reflexivity. Qed.\n"
          % (fn.name, names, fn.name, names, fn.name, names))
    ok, out = ctx.gen_obligation("GenEq_" + fn.name, ob)
    if ok:
      ctx.cov["discharged"] += 1
    else:
      ctx.proof_failure("GenEq_%s (Gen = Ref)" % fn.name, out[-2000:])


def run(ctx):
  ctx.cov["rule"] = (
      "gradient sequences (normal / integer / low-rank / with zero steps / scale-varying) of length "
      "1..10 in dimension 2..6 x algorithm in {OGD, ADA, S_ADA, ADA_FD, FD_SON, RFD_SON} x sketch "
      "size x delta x learning rate, plus rank-deficient histories with delta>0 for the lossless "
      "clause; distinct by generator parameters, non-trivial when the history has more than one step")
  ctx.assumptions += [
      "Coq 8.16.1 kernel + vm_compute", "rsqrt / reciprocal / sqrt / SVD are oracles; every value used "
      "is checked against its spec to 2^-40 relative before use",
      "uniqueness of the PSD inverse square root is not proved: full-matrix AdaGrad is compared through "
      "a certified root (Y PSD, Y Y (delta I + C) = I to 2^-32)",
      "'rank below sketch size => rho = 0' is a property of the SVD: monitored (rho <= 1e-7 scale), "
      "cases where it does not hold are counted and excluded from the lossless clause"]
  ctx.proofs(["Properties/C16.v"], extra_targets=["theories/C16/Check.vo"], dirs=["C09"])
  translator_obligations(ctx)
  driver_probe(ctx)
  cases = gen_cases(ctx)
  ctx.log("%d cases" % len(cases))
  results = evaluate(ctx, run_impl(cases), "c16")
  report(ctx, results)


def replay(ctx, rec):
  c = rec.get("input")
  if not isinstance(c, dict) or "algo" not in c:
    print("replay: nothing executable in this record")
    return 1
  ctx.proofs(["Properties/C16.v"], extra_targets=["theories/C16/Check.vo"], dirs=["C09"])
  res = evaluate(ctx, run_impl([c]), "replay")
  r = res[0]
  print("codes:", r.get("codes"), r.get("exc"))
  bad = ("exc" in r) or any(v != 0 for v in r.get("codes", {}).values())
  print("REPLAY %s" % ("reproduces" if bad else "does not reproduce"))
  return 1 if bad else 0
