"""C10 — the low-rank packed preconditioner agrees with the dense matrix it denotes.

Deciding method: Coq theorems (coq/theories/Properties/C10.v, all sizes / ranks / tensor ranks /
axes) about the hand-written executable model coq/theories/C10/Model.v; the model is tied to /repo on
every run by correspondence under jax_enable_x64 (harness/impl/c10_worker.py):
  * pack / unpack / _precond_dim / _should_compress on index-valued fields, all d <= B, all
    admissible and inadmissible ranks of both signs: exact integers, model evaluated in Coq;
  * Preconditioner._precondition_block on integer tensors of rank 1..3, every axis packed / full /
    skipped: exact integers, against (a) the model's transcription of the loop and (b) the dense
    formula of the theorem, both evaluated in Coq, and (c) numpy int64 on the implementation side;
  * _low_rank_root on generated PSD matrices with a spectral gap at the cut: the eigh / power answers
    are captured by wrapping jnp.linalg.eigh / jnp.power, checked against their specs in Coq (exact
    rationals, tau_f64 = 2^-44) and the packed result is compared with the model's (exact rationals,
    2^-44 relative per entry); the property statement itself is evaluated on the implementation with
    float64 numpy (reference eigendecomposition, 1e-9 relative: gap ratio >= 1.25 at every cut).
"""
import json

from harness import common
from harness.common import zlist, zlistlist, zlit, blit, qlit

WORKER = "harness.impl.c10_worker"
HEADER = ("From Coq Require Import ZArith QArith List Bool.\n"
          "From Precond Require Import Base.PyLib C06.Ref C10.Model C10.Check.\n"
          "Import ListNotations.\nOpen Scope Z_scope.\n")
PROOF_ARGS = dict(prop_files=["Properties/C10.v"], extra_targets=["theories/C10/Check.vo"])


# ------------------------------------------------------------------------------------------------
# generators
# ------------------------------------------------------------------------------------------------
def gen_pack_cases(ctx):
  B = 12 if ctx.tier == "quick" else 16
  cases = []
  for d in range(1, B + 1):
    for r in range(1, d + 2):
      for cr in (r, -r):
        ok = r + 2 < d
        if not ok and d > 7:
          continue
        for hz in ((False, True) if ok else (False,)):
          cases.append(dict(kind="pack", d=d, cr=cr, hz=hz))
  return cases


def rand_packed(rng, d, r, skip):
  """Integer-valued packed matrix d x (r+2): small eigvecs / eigvals / const, non-zero garbage in the
  slots the application must ignore (deflated eigenvalues, tail, unused cells)."""
  P = [[rng.rint(-2, 2) for _ in range(r)] + [0, 0] for _ in range(d)]
  for i in range(d):
    P[i][r] = rng.rint(-3, 3) if i < r else (rng.rint(5, 9) if i < d - 1 else (1 if skip else 0))
    P[i][r + 1] = rng.rint(-3, 3) if i == 0 else rng.rint(5, 9)
  return P


def gen_block_cases(ctx):
  rng = ctx.rng.fork()
  quick = ctx.tier == "quick"
  cases = []
  reps = 6 if quick else 30
  for n in (1, 2, 3):
    for axis in range(n):
      for cr in (1, -1, 2, -2, 3):
        for rep in range(reps if n < 3 else max(2, reps // 2)):
          r = abs(cr)
          hi = 7 if n < 3 else 6
          shape = [rng.rint(2, 5) for _ in range(n)]
          shape[axis] = rng.rint(r + 3, max(r + 3, hi))
          pcs = []
          for k in range(n):
            kinds = ["full", "none"] + (["packed"] * 2 if shape[k] > r + 2 else [])
            kind = "packed" if k == axis else rng.choice(kinds)
            if kind == "packed":
              pcs.append(dict(kind="packed", m=rand_packed(rng, shape[k], r, rng.below(8) == 0)))
            elif kind == "full":
              pcs.append(dict(kind="full", m=[[rng.rint(-3, 3) for _ in range(shape[k])]
                                              for _ in range(shape[k])]))
            else:
              pcs.append(dict(kind="none"))
          size = 1
          for s in shape:
            size *= s
          g = [rng.rint(-7, 7) for _ in range(size)]
          cases.append(dict(kind="block", shape=shape, cr=cr, g=g, preconds=pcs, axis=axis))
          if rep % 3 == 0:
            # the same block with a half-precision gradient and float32 preconditioners (what the
            # optimizer holds for bfloat16 parameters): the packed application must still be the dense
            # matrix's, computed in float32 -- small integers keep every intermediate value exact there,
            # while a computation in the gradient's 8-bit mantissa is not (added after a seeded change
            # was missed)
            # gradient entries up to 250 are exact in bfloat16 (8 bits) but their projections are not
            gh = [rng.rint(-250, 250) for _ in range(size)]
            cases.append(dict(kind="block", shape=shape, cr=cr, g=gh, preconds=pcs, axis=axis,
                              gdtype="bfloat16", pdtype="float32"))
  return cases


def gen_root_cases(ctx):
  rng = ctx.rng.fork()
  quick = ctx.tier == "quick"
  cases = []
  combos = []
  for d in ((4, 5, 6, 7) if quick else (4, 5, 6, 7, 8, 9)):
    for r in range(1, d - 2):
      for cr in (r, -r):
        pss = sorted(set([d, d - 1, max(r, d - 2), r]))
        for ps in pss + ([None] if cr > 0 else []):
          combos.append((d, cr, ps))
  combos = rng.shuffle(combos)
  n = 64 if quick else 360
  for (d, cr, ps) in combos[:n]:
    cases.append(dict(kind="root", d=d, cr=cr, ps=ps, p=rng.choice([1, 2, 3, 4, 6, 8]),
                      relative=bool(rng.below(2)), ridge_epsilon=rng.choice([1e-6, 1e-3, 2.0 ** -10]),
                      seed=rng.next(), spread=rng.choice([1.0, 30.0, 1e4])))
  # magnitude of the statistics: top eigenvalue `scale` (1 = historical generator); with the relative
  # ridge a top eigenvalue below 1 separates the scaled ridge from the configured one, and eigenvalues
  # below the ridge exercise the eigenvalue floor (added after a seeded change was missed)
  for (d, cr, ps) in combos[:(24 if quick else 120)]:
    cases.append(dict(kind="root", d=d, cr=cr, ps=ps, p=rng.choice([1, 2, 4]),
                      relative=bool(rng.below(4)), ridge_epsilon=rng.choice([1e-6, 1e-3]),
                      seed=rng.next(), spread=rng.choice([30.0, 1e4]),
                      scale=rng.choice([1e-3, 1e-6, 1e3, 2.0 ** -10])))
  # rank-deficient statistics with padding (ties between the null space and the padding eigenvalues)
  for (d, cr, ps) in [x for x in combos if x[2] is not None and x[2] < x[0]][:(16 if quick else 80)]:
    cases.append(dict(kind="root", d=d, cr=cr, ps=ps, p=rng.choice([1, 2, 4]), relative=bool(rng.below(2)),
                      ridge_epsilon=rng.choice([1e-6, 1e-3]), seed=rng.next(), spread=30.0,
                      null=rng.rint(1, 3)))
  # all-padding block: the packed root must be the zero matrix
  cases.append(dict(kind="root", d=5, cr=1, ps=0, p=2, relative=False, ridge_epsilon=1e-6,
                    seed=rng.next(), spread=1.0))
  cases.append(dict(kind="root", d=6, cr=-2, ps=0, p=4, relative=True, ridge_epsilon=1e-6,
                    seed=rng.next(), spread=1.0))
  # negative rank with the default padding_start=None (model: no padding, ps = d)
  cases.append(dict(kind="root", d=6, cr=-2, ps=None, p=2, relative=False, ridge_epsilon=1e-6,
                    seed=rng.next(), spread=10.0))
  return cases


# ------------------------------------------------------------------------------------------------
# Coq terms
# ------------------------------------------------------------------------------------------------
def qlist(xs):
  return "[" + "; ".join(qlit(float(x)) for x in xs) + "]"


def qmatlit(rows):
  return "[" + "; ".join(qlist(r) for r in rows) + "]"


def precond_term(p, d, cr):
  if p["kind"] == "none":
    return "PNone"
  if p["kind"] == "full":
    return "(PFull %s (qmat %s))" % (zlit(d), zlistlist(p["m"]))
  return "(PPacked %s %s (qmat %s))" % (zlit(d), zlit(cr), zlistlist(p["m"]))


def term_for(r):
  c = r["case"]
  k = c["kind"]
  if k == "pack":
    d, cr = c["d"], c["cr"]
    dims = "chk_dims %s %s %s %s" % (zlit(cr), zlit(d), zlit(r["pd"]), blit(r["sc"]))
    if r["rejected"]:
      return "(%s, negb (fd_pack_ok %s %s), true, true, true, true)" % (dims, zlit(d), zlit(cr))
    from harness.impl.c10_worker import index_fields
    vecs, defl, inv, const, tail = index_fields(d, abs(cr))
    a = r["arange_unpacked"]
    lu = r["lr_unpacked"]
    return "(%s, %s, %s, %s, %s, %s)" % (
        dims,
        "chk_pack %s %s %s %s %s %s %s %s %s" % (
            zlit(d), zlit(cr), zlistlist(vecs), zlist(defl), zlist(inv), zlit(const), zlit(tail),
            blit(c["hz"]), zlistlist(r["packed"])),
        "chk_unpack %s %s %s %s %s %s %s %s %s" % (
            zlit(d), zlit(cr), zlistlist(r["arange"]), zlistlist(a["vecs"]), zlist(a["defl"]),
            zlist(a["inv"]), zlit(a["const"]), zlit(a["tail"]), blit(a["hz"])),
        "chk_unpack %s %s %s %s %s %s %s %s %s" % (
            zlit(d), zlit(cr), zlistlist(r["packed"]), zlistlist(r["unpacked"]["vecs"]),
            zlist(r["unpacked"]["defl"]), zlist(r["unpacked"]["inv"]), zlit(r["unpacked"]["const"]),
            zlit(r["unpacked"]["tail"]), blit(r["unpacked"]["hz"])),
        "chk_lr_pack %s %s %s %s %s %s" % (zlit(d), zlit(cr), zlistlist(vecs), zlist(inv),
                                          zlit(const), zlistlist(r["lr_packed"])),
        "chk_lr_unpack %s %s %s %s %s %s %s" % (
            zlit(d), zlit(cr), zlistlist(r["lr_packed"]), zlistlist(lu["vecs"]), zlist(lu["inv"]),
            zlit(lu["const"]), blit(lu["hz"])))
  if k == "block":
    shape = c["shape"]
    ps = "[" + "; ".join(precond_term(p, shape[i], c["cr"]) for i, p in enumerate(c["preconds"])) + "]"
    args = "%s %s %s %s" % (zlist(shape), zlist(c["g"]), ps, zlist(r["out"]))
    direct = "chk_block " if len(shape) <= 2 else "chk_block_memo "
    return "(%s, %s)" % (direct + args, "chk_block_dense " + args)
  if k == "root":
    d = c["d"]
    ps = d if c["ps"] is None else c["ps"]
    if ps == 0:  # kernels run on an all-zero (possibly NaN-ridged) input; the model ignores them
      return ("(true, true, true, root_val_ok %s %s 0 0%%Q (fun _ => 0%%Q) (fun _ _ => 0%%Q) "
              "(fun x => x) (mat_of 0%%Q %s), true)" % (zlit(d), zlit(c["cr"]), qmatlit(r["val"])))
    return "chk_root %s %s %s %s %s %s %s %s %s %s %s %s" % (
        zlit(d), zlit(c["cr"]), zlit(ps), zlit(c["p"]), qlit(float(r["ridge"])), qmatlit(r["A"]),
        qmatlit(r["areg"]), qlist(r["ev"]), qmatlit(r["U"]), qlist(r["px"]), qlist(r["pout"]),
        qmatlit(r["val"]))
  raise ValueError(k)


LABELS = dict(
    pack=["_precond_dim/_should_compress", "_fd_low_rank_pack", "_fd_low_rank_unpack(arange)",
          "_fd_low_rank_unpack(packed)", "_low_rank_pack", "_low_rank_unpack"],
    block=["model loop (transcription of _precondition_block)", "dense formula of the theorem"],
    root=["regularized input", "eigh answer meets eigh_spec within tau", "power answers meet root_spec within tau",
          "packed root == model on the captured kernel answers", "conclusion of low_rank_root_denotes"])


def run_cases(ctx, cases, tag="corr"):
  n = common.NPROC
  chunks = [c for c in (cases[i::n] for i in range(n)) if c]
  outs = common.run_workers_parallel(WORKER, [dict(cases=c) for c in chunks], x64=True, timeout=3000)
  # restore generation order
  results = [None] * len(cases)
  for ci, o in enumerate(outs):
    for k, r in enumerate(o["results"]):
      results[ci + k * n] = r
  terms, idx = [], []
  for i, r in enumerate(results):
    if "exc" in r or r.get("out", 0) is None:
      continue
    try:
      terms.append(term_for(r))
    except ValueError as e:      # NaN / Inf has no dyadic form: reported with the case as failing input
      r["exc"] = "non-finite value in the implementation's output for finite input (%s)" % e
      continue
    idx.append(i)
  vals = ctx.coq_eval(tag, HEADER, terms, per_shard=max(4, min(60, len(terms) // common.NPROC + 1)))
  for i, v in zip(idx, vals):
    flags = [x.strip() for x in v.strip("() ").split(",")]
    if not flags or any(f not in ("true", "false") for f in flags):
      raise common.CoqError("unexpected verdict %r" % v)
    labels = LABELS[results[i]["kind"]]
    results[i]["model_flags"] = flags
    results[i]["model_disagrees"] = [labels[j] for j, f in enumerate(flags) if f != "true"]
  return results


def matches_known(r, known):
  for k in known:
    m = k.get("match", {})
    if m.get("kind") and m["kind"] != r["kind"]:
      continue
    if "exc_prefix" in m and m["exc_prefix"] not in (r.get("exc", "") + " ".join(r.get("why", []))):
      continue
    pred = m.get("pred")
    if pred and not eval(pred, {}, dict(case=r["case"], r=r)):  # pylint: disable=eval-used
      continue
    return k
  return None


def slim(r):
  return {k: v for k, v in r.items() if k not in ("case", "trace")}


def judge(ctx, results, known, reported):
  for r in results:
    c = r["case"]
    key = json.dumps(c, sort_keys=True)
    k = c["kind"]
    if k == "pack":
      nontrivial = not r.get("rejected", False)
      ctx.count("pack:d=%d" % c["d"])
      ctx.count("pack:" + ("accepted" if nontrivial else "rejected"))
    elif k == "block":
      kinds = [p["kind"] for p in c["preconds"]]
      nontrivial = "packed" in kinds
      ctx.count("block:rank=%d" % len(c["shape"]))
      ctx.count("block:packed_axis=%d" % c["axis"])
      for i, kd in enumerate(kinds):
        ctx.count("block:axis%d=%s" % (i, kd))
      if any(p["kind"] == "packed" and p["m"][-1][abs(c["cr"])] != 0 for p in c["preconds"]):
        ctx.count("block:has_zeros")
    else:
      nontrivial = c["ps"] != 0
      ctx.count("root:d=%d" % c["d"])
      ctx.count("root:sign=%s" % ("+" if c["cr"] > 0 else "-"))
      ctx.count("root:p=%d" % c["p"])
      ctx.count("root:padding=%s" % ("none" if c["ps"] is None else
                                     ("full" if c["ps"] == c["d"] else ("zero" if c["ps"] == 0 else "partial"))))
    sample = None
    if ctx.cov["evaluations"] % 97 == 0:
      sample = dict(case={a: b for a, b in c.items() if a not in ("g",)},
                    impl={a: b for a, b in slim(r).items()
                          if a in ("pd", "sc", "rejected", "out", "ridge", "oracle_rel_err", "model_flags")})
    ctx.case(key, nontrivial, sample=sample)
    bad_impl = not r["ok"]
    bad_model = bool(r.get("model_disagrees"))
    if not bad_impl and not bad_model:
      continue
    kf = matches_known(r, known) if bad_impl else None
    if kf is not None:
      if kf["id"] not in reported:
        reported.add(kf["id"])
        ctx.known("%s %s" % (kf["id"], kf["title"]))
      continue
    import re
    sig = (k, bad_impl, tuple(re.sub(r"[-+0-9.e]+", "#", w)[:60] for w in r.get("why", [])[:2]),
           tuple(r.get("model_disagrees", [])))
    if sig in reported:
      continue
    reported.add(sig)
    if bad_impl:
      ctx.violation("impl-violates", dict(
          input=c, expected="property C10 holds on the implementation (unpack o pack = id, slot layout, "
          "compressed application == dense matrix product, packed root == root with mean tail)",
          actual=r.get("why") or r.get("exc"),
          theorem_or_check="implementation-side oracle harness/impl/c10_worker.py (%s)" % k,
          model=r.get("model_disagrees"), impl_output=slim(r)))
    else:
      ctx.violation("correspondence-broken", dict(
          input=c, expected="model C10.Model == implementation", actual=r["model_disagrees"],
          theorem_or_check="correspondence C10.Check (%s)" % k, impl_output=slim(r),
          note="implementation-side property oracle found nothing wrong on this input"),
          no_input=True)


def load_corpus():
  import glob
  import os
  out = []
  for p in sorted(glob.glob(os.path.join(common.VERIF, "corpus", "C10", "*.json"))):
    rec = json.load(open(p))
    c = rec.get("input", rec)
    if isinstance(c, dict) and "kind" in c:
      out.append(c)
  return out


def run(ctx):
  ctx.cov["rule"] = (
      "pack: every (d, r) with d <= B (quick 12, thorough 16), both signs of r, has_zeros in {F,T}, "
      "plus every inadmissible (d, r) with d <= 7 (must be rejected); index-valued fields so that every "
      "slot is identified. block: tensors of rank 1..3 with integer entries in [-7,7]; for every axis "
      "a case family in which that axis is packed (ranks +-1, +-2, 3) and the other axes are drawn "
      "from {packed, full (non-symmetric integer matrix), skipped}; packed matrices carry non-zero "
      "garbage in all ignored slots; 1/8 have has_zeros set. root: (d, r, padding_start) combos "
      "shuffled by the run's PRNG, p in {1,2,3,4,6,8}, relative/absolute ridge, spectrum with "
      "consecutive ratio >= 1.25 (gap at every cut), garbage in the padded rows/cols. A case is "
      "non-trivial when compression actually applies (accepted pack / at least one packed axis / "
      "non-empty unpadded block); distinct by full input.")
  ctx.assumptions += [
      "Coq 8.16.1 kernel + vm_compute",
      "C06.Ref.precond_dim / should_compress are the translator's output (re-proved equal to the source "
      "by ./check C06) and additionally compared here with the observed values",
      "jnp.linalg.eigh and jnp.power are oracles: their captured answers are checked against eigh_spec / "
      "root_spec within tau_f64 = 2^-44 (exact rationals, in Coq); the theorems assume the specs exactly",
      "power_iteration (max eigenvalue for the relative ridge) is an oracle: its answer is captured, "
      "the regularized input is re-derived from it and compared",
      "float64 rounding of tensordot/sum inside the implementation is not modelled: block cases use "
      "integer data (exact), root cases compare within 2^-44 relative",
      "tolerances: DESIGN section 3 table (tau_f64 = 2^-44); implementation-side float64 oracle 1e-9 "
      "relative (eigenvector conditioning at gap ratio >= 1.25)"]
  ctx.proofs(**PROOF_ARGS)
  known = common.load_known_findings("C10")
  reported = set()
  corpus = load_corpus()
  if corpus:
    ctx.log("%d corpus cases" % len(corpus))
    judge(ctx, run_cases(ctx, corpus, tag="corpus"), known, reported)
  cases = gen_pack_cases(ctx) + gen_block_cases(ctx) + gen_root_cases(ctx)
  ctx.log("%d generated cases" % len(cases))
  judge(ctx, run_cases(ctx, cases), known, reported)
  ctx.flush_proof_failures()


def replay(ctx, rec):
  c = rec.get("input")
  if not isinstance(c, dict) or "kind" not in c:
    print("replay: nothing executable in this record (%s)" % rec.get("theorem_or_check"))
    return 1
  ctx.proofs(**PROOF_ARGS)
  r = run_cases(ctx, [c], tag="replay")[0]
  print(json.dumps({k: v for k, v in slim(r).items()
                    if k not in ("A", "areg", "U", "val", "ev", "px", "pout")}, indent=1)[:6000])
  bad = (not r["ok"]) or bool(r.get("model_disagrees"))
  print("REPLAY %s" % ("reproduces" if bad else "does not reproduce"))
  return 1 if bad else 0
