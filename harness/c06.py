"""C06 — merging, blocking, blockifying and padding are lossless and self-consistent.

Deciding method: Coq theorems (Properties/C06.v) about C06.Ref; Ref is tied to /repo by
(1) the translator: tools/py2v.py regenerates coq/gen/C06/Gen.v from the working tree and the
    obligations  Gen.f = Ref.f  are re-proved (reflexivity) on every run, and
(2) exhaustive bounded correspondence on arange tensors (implementation outputs == model outputs,
    exact integers) together with the property evaluated directly on the implementation.
"""
import itertools
import json
import os
import re

from harness import common
from harness.common import zlist, zlistlist, zlit, blit
from tools import targets

HEADER = ("From Precond Require Import Base.PyLib Base.Tensor C06.Records C06.Ref C06.Check "
          "C06.BlockifyModel.\nOpen Scope Z_scope.\n")
PROP_FILES = ["Properties/C06.v", "Properties/C06_blockify.v"]
EXTRA_TARGETS = ["theories/C06/Check.vo", "theories/C06/BlockifyModel.vo"]


def shapes_upto(rank, dims):
  for r in range(rank + 1):
    for s in itertools.product(dims, repeat=r):
      yield list(s)


def gen_cases(ctx):
  quick = ctx.tier == "quick"
  rng = ctx.rng
  cases = []
  B = 4 if quick else 6
  # merge_small_dims: all shapes x limits
  merges = [1, 2, 3, 4, 6, 8, 16] if quick else [1, 2, 3, 4, 5, 6, 8, 9, 12, 16, 36, 64]
  for s in shapes_upto(4 if quick else 5, range(1, B + 1)):
    for m in merges:
      cases.append(dict(kind="merge", shape=s, merge=m))
  # partition: all shapes (rank<=3) x block sizes
  PB = 6 if quick else 8
  for s in shapes_upto(3, range(1, PB + 1)):
    for b in ([0, 1, 2, 3, 4, 5, 7] if quick else [0, 1, 2, 3, 4, 5, 6, 7, 8, 9]):
      cases.append(dict(kind="partition", shape=s, block=b))
  if not quick:
    for s in shapes_upto(4, range(1, 5)):
      if len(s) == 4:
        for b in [1, 2, 3]:
          cases.append(dict(kind="partition", shape=s, block=b))
  # Preconditioner: shapes x block x merge x type x compression
  allp = []
  for s in shapes_upto(4, range(1, 4 if quick else 5)):
    for b in [1, 2, 3]:
      for m in [1, 2, 4, 9]:
        for pt in [1, 2, 3]:
          for cr in [0, 1, -1]:
            allp.append(dict(kind="precond", shape=s, block=b, merge=m, ptype=pt, cr=cr))
  small = [c for c in allp if len(c["shape"]) <= 2]
  big = [c for c in allp if len(c["shape"]) > 2]
  big = rng.shuffle(big)[:700 if quick else 6000]
  cases += small + big
  # a few larger dims so compression actually applies (|cr|+2 < dim)
  for s in [[7], [5, 6], [8, 3], [2, 9, 4], [6, 6]]:
    for b in [0, 4, 5, 16]:
      for pt in [1, 2, 3]:
        for cr in [0, 1, 2, -2]:
          cases.append(dict(kind="precond", shape=s, block=b, merge=1, ptype=pt, cr=cr))
  # tearfree blockify: shapes accepted by _init
  for b in [2, 3, 4]:
    dims = sorted(set([2, 3, 4, 5, b, 2 * b, 3 * b]))
    for s in shapes_upto(4 if quick else 5, dims):
      if not s or any(d == 1 for d in s):
        continue
      large = [d for d in s if d >= b]
      if len(large) > 2 or any(d % b for d in large):
        continue
      cases.append(dict(kind="blockify", shape=s, block=b))
  # reshaper
  for s in shapes_upto(4, range(1, 5 if quick else 6)):
    for b in [0, 2, 3, 4]:
      for m in [2, 3, 4, 8]:
        cases.append(dict(kind="reshaper", shape=s, block=b, merge=m))
  if quick:
    # keep runtime bounded: subsample the two biggest families deterministically
    keep = []
    for c in cases:
      if c["kind"] in ("reshaper",) and len(c["shape"]) == 4 and rng.below(4) != 0:
        continue
      if c["kind"] == "blockify" and len(c["shape"]) == 4 and rng.below(3) != 0:
        continue
      keep.append(c)
    cases = keep
  return cases


def term_for(r, mod_check="chk"):
  c = r["case"]
  k = r["kind"]
  if k == "merge":
    return "chk_merge %s %s %s" % (zlist(c["shape"]), zlit(c["merge"]), zlist(r["out"]))
  if k == "partition":
    splits = "[" + "; ".join("(%s, %s)" % (zlit(i), zlist(ind)) for i, ind in r["splits"]) + "]"
    t = "chk_partition %s %s %s %s %s" % (zlist(c["shape"]), zlit(c["block"]),
                                         zlistlist(r["split_sizes"]), splits,
                                         zlistlist(r["block_shapes"]))
    if "blocks_flat" in r:
      t = "(%s) && chk_blocks %s %s %s" % (t, zlist(c["shape"]), zlit(c["block"]),
                                           zlistlist(r["blocks_flat"]))
    return t
  if k == "precond":
    return "chk_precond %s %s %s %s %s %s %s %s %s %s" % (
        zlist(c["shape"]), zlit(c["block"]), zlit(c["merge"]), zlit(c["ptype"]), zlit(c["cr"]),
        zlist(r["transformed"]), zlistlist(r["split_sizes"]), zlistlist(r["shapes"]),
        zlit(r["exponent"]), "[" + "; ".join(blit(x) for x in r["should"]) + "]")
  if k == "blockify":
    m = r["meta"]
    return "chk_blockify %s %s %s %s %s %s %s" % (
        zlist(c["shape"]), zlit(c["block"]), zlist(m["block_sizes"]), zlit(m["num_blocks"]),
        zlist(m["large_axes"]), zlist(m["blocks_per_large_axis"]), zlit(m["blocks_axis"]))
  if k == "reshaper":
    s = r["shapes"]
    return "chk_reshaper %s %s %s %s %s %s" % (
        zlist(c["shape"]), zlit(c["block"]), zlit(c["merge"]), zlist(s["original"]),
        zlist(s["merged"]), zlist(s["padded"]))
  raise ValueError(k)


def tensor_term_for(r):
  """Tensor-level correspondence (C06.BlockifyModel: Gallina reshape/transpose/pad/slice model of
  _blockify/_deblockify and reshaper merge/unmerge) for the small cases whose flat contents the
  worker exported; None when there is nothing to compare."""
  c = r["case"]
  k = r["kind"]
  if k == "blockify" and "blocked_flat" in r:
    sh, b = zlist(c["shape"]), zlit(c["block"])
    bs, bf = zlist(r["blocked_shape"]), zlist(r["blocked_flat"])
    return ("chk_blockify_tensor %s %s %s %s && chk_deblockify_tensor %s %s %s %s %s %s && "
            "chk_blocks_subtensor %s %s" % (
                sh, b, bs, bf, sh, b, bs, bf, zlist(r["deblocked_shape"]),
                zlist(r["deblocked_flat"]), sh, b))
  if k == "reshaper" and "merged_flat" in r:
    sh, b, m = zlist(c["shape"]), zlit(c["block"]), zlit(c["merge"])
    ms, mf = zlist(r["merged_shape_actual"]), zlist(r["merged_flat"])
    return "chk_merge_tensor %s %s %s %s %s && chk_unmerge_tensor %s %s %s %s %s %s %s" % (
        sh, b, m, ms, mf, sh, b, m, ms, mf, zlist(r["unmerged_shape"]), zlist(r["unmerged_flat"]))
  return None


def translator_obligations(ctx):
  """Regenerate Gen.v from /repo, compile, and re-prove Gen.f = Ref.f for every function.
  Returns list of broken obligations [(name, log)] and whether Gen.v compiled."""
  text, errors = targets.generate(common.REPO, targets.SHAPE_TARGETS)
  broken = [("translate:" + q, msg) for q, msg in errors]
  ok, out = ctx.gen_obligation("Gen", text)
  ctx.cov["obligations"] += 1
  if not ok:
    broken.append(("compile Gen.v (translator output)", out[-2000:]))
    return broken, False
  ctx.cov["discharged"] += 1
  failed_names = set(q for q, _ in errors)
  names = []
  for path, fn in targets.SHAPE_TARGETS:
    if fn.qual in failed_names:
      ctx.cov["obligations"] += 1
      continue
    names.append(fn)
  texts = {}
  for fn in names:
    args = " ".join(n for n, _ in fn.params)
    texts[fn.name] = (
        "From Precond Require Import Base.PyLib.\nFrom Precond Require C06.Ref.\n"
        "From PrecondGen Require C06.Gen.\n"
        "Lemma gen_eq_%s : forall %s, C06.Gen.%s %s = C06.Ref.%s %s.\n"
        "Proof. intros. first [ reflexivity | (cbv beta delta [C06.Gen.%s C06.Ref.%s]; reflexivity) ]. Qed.\n"
        % (fn.name, args, fn.name, args, fn.name, args, fn.name, fn.name))
  import concurrent.futures as cf
  with cf.ThreadPoolExecutor(max_workers=common.NPROC) as ex:
    res = list(ex.map(lambda kv: (kv[0], ctx.gen_obligation("GenEq_" + kv[0], kv[1])),
                      texts.items()))
  for name, (ok, out) in res:
    ctx.cov["obligations"] += 1
    if ok:
      ctx.cov["discharged"] += 1
    else:
      broken.append(("GenEq_%s (Gen.%s = Ref.%s)" % (name, name, name), out[-1500:]))
  return broken, True


def run_cases(ctx, cases, header=HEADER, tag="corr"):
  n = common.NPROC
  chunks = [cases[i::n] for i in range(n)]
  chunks = [c for c in chunks if c]
  outs = common.run_workers_parallel("harness.impl.c06_worker",
                                     [dict(cases=c) for c in chunks], timeout=3000)
  results = [r for o in outs for r in o["results"]]
  terms, idx = [], []
  for i, r in enumerate(results):
    if "exc" in r:
      continue
    terms.append(term_for(r))
    idx.append(i)
  tterms, tidx = [], []
  for i in idx:
    t = tensor_term_for(results[i])
    if t is not None:
      tterms.append(t)
      tidx.append(i)
  vals = ctx.coq_eval(tag, header, terms, per_shard=400)
  for i, v in zip(idx, vals):
    results[i]["model_agrees"] = (v == "true")
    if v not in ("true", "false"):
      raise common.CoqError("unexpected verdict %r" % v)
  tvals = ctx.coq_eval(tag + "_tensor", header, tterms, per_shard=150)
  for i, v in zip(tidx, tvals):
    results[i]["tensor_model_agrees"] = (v == "true")
    if v not in ("true", "false"):
      raise common.CoqError("unexpected verdict %r" % v)
  return results


def matches_known(r, known):
  for k in known:
    m = k.get("match", {})
    if m.get("kind") and m["kind"] != r["kind"]:
      continue
    if "exc_prefix" in m and not str(r.get("exc", "") + " ".join(r.get("why", []))).count(
        m["exc_prefix"]):
      continue
    pred = m.get("pred")
    if pred and not eval(pred, {}, dict(case=r["case"], r=r)):  # pylint: disable=eval-used
      continue
    return k
  return None


def run(ctx):
  ctx.cov["rule"] = (
      "exhaustive enumeration of shapes (rank 0..4/5, dims 1..B) x block sizes x merge limits x "
      "preconditioner types x compression ranks (largest families deterministically subsampled "
      "from the run's PRNG); a case is distinct by its full input tuple and non-trivial when the "
      "transformation actually changes the shape (merge/split/pad/blockify applies)")
  ctx.assumptions += [
      "Coq 8.16.1 kernel + vm_compute", "tools/py2v.py translator (fail-closed)",
      "jnp.split/concatenate/reshape/transpose/pad semantics are modelled in Coq on flat row-major "
      "tensors (Base.Tensor, C06.Transpose) and tied to the implementation on arange tensors: "
      "block contents for <=64 elements (C06.Check.chk_blocks), Tearfree _blockify/_deblockify and "
      "reshaper merge/unmerge outputs for <=256 / <=128 elements (C06.BlockifyModel.chk_*_tensor)"]
  proofs_ok = ctx.proofs(PROP_FILES, extra_targets=EXTRA_TARGETS)
  broken, gen_ok = translator_obligations(ctx)
  for name, log in broken:
    ctx.log("obligation broken:", name)
    ctx.proof_failure(name, log)
  known = common.load_known_findings("C06")
  cases = gen_cases(ctx)
  ctx.log("%d correspondence cases" % len(cases))
  results = run_cases(ctx, cases)
  reported = set()
  for r in results:
    c = r["case"]
    key = json.dumps(c, sort_keys=True)
    nontrivial = True
    if r["kind"] == "merge":
      nontrivial = r.get("out") != c["shape"]
    elif r["kind"] == "partition":
      nontrivial = len(r.get("block_shapes", [])) > 1
    elif r["kind"] == "blockify":
      nontrivial = bool(r.get("meta", {}).get("large_axes"))
    elif r["kind"] == "reshaper":
      nontrivial = r.get("shapes", {}).get("padded") != c["shape"]
    ctx.case(key, nontrivial, sample=dict(case=c, impl={k: v for k, v in r.items()
                                                        if k not in ("case", "why", "ok")})
             if ctx.cov["evaluations"] % 977 == 0 else None)
    ctx.count(r["kind"])
    bad_impl = (not r["ok"])
    bad_model = (r.get("model_agrees") is False) or (r.get("tensor_model_agrees") is False)
    if r.get("tensor_model_agrees") is not None:
      ctx.count("tensor-model:" + r["kind"])
    if not bad_impl and not bad_model:
      continue
    k = matches_known(r, known) if bad_impl else None
    if k is not None:
      if k["id"] not in reported:
        reported.add(k["id"])
        ctx.known("%s %s" % (k["id"], k["title"]))
      continue
    sig = (r["kind"], bad_impl, tuple(r.get("why", [])), r.get("exc", "")[:40])
    if sig in reported:
      continue
    reported.add(sig)
    if bad_impl:
      ctx.violation("impl-violates", dict(
          input=c, expected="property C06 clauses hold", actual=r.get("why") or r.get("exc"),
          theorem_or_check="implementation-side oracle harness/impl/c06_worker.py",
          model_agrees=r.get("model_agrees"), tensor_model_agrees=r.get("tensor_model_agrees"),
          impl_output={k2: v for k2, v in r.items() if k2 not in ("case",)}))
    else:
      ctx.violation("correspondence-broken", dict(
          input=c, expected="model C06.Ref / C06.BlockifyModel == implementation",
          actual=(tensor_term_for(r) if r.get("model_agrees") is not False else term_for(r)),
          theorem_or_check=("correspondence C06.BlockifyModel (tensor level) %s" % r["kind"]
                            if r.get("model_agrees") is not False
                            else "correspondence C06.Check.chk_%s" % r["kind"]),
          note="implementation-side property oracle found nothing wrong on this input"),
          no_input=True)
  # a broken obligation with no concrete failing input found anywhere -> still a violation
  ctx.flush_proof_failures()


def replay(ctx, rec):
  c = rec.get("input")
  if not isinstance(c, dict) or "kind" not in c:
    print("replay: nothing executable in this record (%s)" % rec.get("theorem_or_check"))
    return 1
  ctx.proofs(PROP_FILES, extra_targets=EXTRA_TARGETS)
  res = run_cases(ctx, [c], tag="replay")
  r = res[0]
  print(json.dumps(r, indent=1))
  bad = (not r["ok"]) or r.get("model_agrees") is False or r.get("tensor_model_agrees") is False
  print("REPLAY %s" % ("reproduces" if bad else "does not reproduce"))
  return 1 if bad else 0
