"""C07 — state contract: shapes preserved, layout stable, every accepted configuration runs.

Deciding method: Coq theorems (Properties/C07.v) about a layout calculus (C07/Layout.v, Model.v,
ModelTF.v: which configurations are accepted, what init / update / the sharded declarations do to
tree structure, static metadata, leaf shapes and dtypes), whose shape arithmetic is C06.Ref
(re-derived from /repo's source by the translator in ./check C06).  Tie to /repo: for every
generated (configuration, parameter tree) the real optimizer is constructed and run (init + T
updates; replicated, pmap, int16-quantized pmap, sharded) and

  (a) the property is evaluated directly on the implementation (harness/impl/c07_worker.py):
      explicit rejection or success; updates look like params; state layout constant; the three
      sharded views agree;
  (b) the model's prediction (Reject / Ok layout, evaluated by vm_compute on the same input) must
      agree leaf by leaf with the observed signatures, and the model's update function must map
      every OBSERVED state layout to the observed successor.

The model is the REPAIRED behaviour; switching on the defect flags of the findings that are still
open (known_findings.json) gives the model of today's tree, which predicts the remaining internal
errors / layout changes and is used only to attribute a failure to a known finding.  (Coq's
[as_is] = all flags on = the pinned tree before the fix: commits; the `_refuted` theorems are about
it.)"""
import ast
import fractions
import itertools
import json
import os
import re
import time

from harness import common
from harness.common import zlit, zlist, blit

PID = "C07"
HEADER = ("From Coq Require Import QArith.\n"
          "From Precond Require Import Base.PyLib C07.Layout C07.Model C07.ModelTF C07.Check.\n"
          "Open Scope Z_scope.\n")
PROPS = ["Properties/C07.v"]
WORKER = "harness.impl.c07_worker"

BUG_FLAGS = ["bD7", "bD8", "bD10", "bD11", "bN1", "bN2", "bN3", "bN4", "bN5", "bN6", "bN7", "bN8",
             "bN9", "bT1", "bB1", "bB2", "bB3", "bB4"]
BUG_TAG = dict(bD7=7, bD8=8, bD10=10, bD11=11, bN1=21, bN2=22, bN3=23, bN4=24, bN5=25, bN6=26,
               bN7=27, bN8=28, bN9=29, bT1=31, bB1=41, bB2=42, bB3=43, bB4=44)

DTYPES = dict(float32="F32", float64="F64", bfloat16="BF16", int8="I8", int16="I16", int32="I32",
              int64="I64", bool="B1")
KINDS = {
    "None": "KNone", "tuple": "KTuple", "list": "KList", "dict": "KDict", "MaskedNode": "KMasked",
    "EmptyState": "KEmpty", "ShampooState": "KShampooState", "ParameterStats": "KParameterStats",
    "QuantizedValue": "KQuantized", "TrainingMetrics": "KTrainingMetrics",
    "LOBPCGDiagnostics": "KLobpcg", "InversePthRootDiagnostics": "KInvDiag", "FDDiagnostics": "KFD",
    "ShardedShampooStats": "KShardedStats", "GlobalShardedParameterStats": "KGlobalStats",
    "LocalShardedParameterStats": "KLocalStats", "SM3State": "KSM3State",
    "sm3.ParameterStats": "KSM3Param", "_ShampooState": "KTFShampooState",
    "_AxesBlocks": "KAxesBlocks", "_SketchyState": "KSketchyState", "_TensorState": "KTensorState",
    "_AxisState": "KAxisState", "GraftingState": "KGraftingState", "RMSPropAccumulator": "KRmsAcc",
    "_GraftMask": "KGraftMask", "TraceState": "KTraceState",
    "ScaleByScheduleState": "KScaleBySchedule", "FactoredState": "KFactoredState"}


# ----------------------------------------------------------------------------------------------
# Python -> Gallina
# ----------------------------------------------------------------------------------------------
def coq_static(s):
  if isinstance(s, bool):
    return "SBool %s" % blit(s)
  if isinstance(s, int):
    return "SInt %s" % zlit(s)
  if isinstance(s, list) and all(isinstance(x, int) and not isinstance(x, bool) for x in s):
    return "SZs %s" % zlist(s)
  if isinstance(s, str) and s.startswith("dt:") and s[3:] in DTYPES:
    return "SDt %s" % DTYPES[s[3:]]
  return "SOther"


def coq_layout(s):
  if s[0] == "L":
    if not all(isinstance(d, int) for d in s[1]):
      return "(Leaf [-1] DOther)"
    return "(Leaf %s %s)" % (zlist(s[1]), DTYPES.get(s[2], "DOther"))
  if s[0] == "S":
    return "(PSpec %d)" % s[1]
  if s[0] == "P":
    return "(Leaf [] PyScalar)"
  return "(Node %s [%s] [%s])" % (KINDS.get(s[1], "KOtherKind"),
                                 "; ".join(coq_static(x) for x in s[2]),
                                 "; ".join(coq_layout(c) for c in s[3]))


def tree_sig(spec):
  """signature of the parameter tree described by a tree spec (what worker.sig(params) returns)."""
  k = spec["k"]
  if k == "leaf":
    return ["L", list(spec["shape"]), spec.get("dtype", "float32")]
  if k == "dict":
    items = sorted(zip(spec["keys"], spec["ch"]))
    return ["N", "dict", [[ord(a) - ord("a") for a, _ in items]], [tree_sig(c) for _, c in items]]
  if k in ("list", "tuple"):
    return ["N", k, [], [tree_sig(c) for c in spec["ch"]]]
  if k == "none":
    return ["N", "None", [], []]
  raise ValueError(k)


def with_dtype(spec, dt):
  """the same tree with every parameter of dtype dt (the model has ONE parameter dtype per case)."""
  if spec["k"] == "leaf":
    return dict(spec, dtype=dt) if dt != "float32" else {k: v for k, v in spec.items() if k != "dtype"}
  out = dict(spec)
  if "ch" in spec:
    out["ch"] = [with_dtype(c, dt) for c in spec["ch"]]
  return out


def tree_leaves(spec):
  if spec["k"] == "leaf":
    return [spec["shape"]]
  return [s for c in spec.get("ch", []) for s in tree_leaves(c)]


def coq_dscfg(cfg):
  from harness.impl.c07_worker import DS_DEFAULTS
  g = lambda k: cfg.get(k, DS_DEFAULTS.get(k))
  mode = cfg.get("mode", "plain")
  sched = bool(g("decay_preconditioning_compute_steps") and g("end_preconditioning_compute_steps")
               and cfg.get("lr_callable"))
  f = [zlit(g("block_size")), zlit(g("merge_small_dims_block_size")),
       blit(g("best_effort_shape_interpretation")), zlit(g("precondtioner_type")),
       zlit(g("compression_rank")), blit(g("frequent_directions")), blit(g("reset_preconditioner")),
       blit(g("average_grad")), blit(g("reuse_preconditioner")), zlit(g("statistics_compute_steps")),
       zlit(g("preconditioning_compute_steps")), blit(sched), zlit(g("graft_type")),
       blit(g("best_effort_memory_usage_reduction")),
       blit(mode == "pmap" or bool(cfg.get("batch_axis_name"))), blit(mode == "sharded"),
       zlit(cfg.get("num_devices_for_pjit", 1)), zlit(g("skip_preconditioning_dim_size_gt")),
       zlit(g("skip_preconditioning_rank_lt")), blit(g("generate_training_metrics")),
       blit(g("generate_fd_metrics")), zlit(g("lobpcg_topk_precondition")), blit(g("eigh")),
       blit(bool(cfg.get("x64"))), DTYPES[cfg.get("param_dtype", "float32")]]
  return "(mkDS %s)" % " ".join(f)


def qlit(x):
  fr = fractions.Fraction(x) if not isinstance(x, float) else common.dy2frac(*common.f2dy(x))
  return "(%s # %d)%%Q" % (zlit(fr.numerator), fr.denominator)


GRAFT_CODE = dict(none=0, sgd=1, rmsprop=2, adafactor=3)


def coq_tfcfg(opt, cfg):
  direct = opt == "tfso"
  if direct:
    so_t = cfg.get("second_order_type", "shampoo")
    sh, sk, merge, g, m, has_sub = cfg.get("shampoo", {}), cfg.get("sketchy", {}), 1024, {}, {}, True
  else:
    so = cfg.get("second_order", {})
    so_t = so.get("second_order_type", "shampoo")
    sh, sk = so.get("shampoo") or {}, so.get("sketchy") or {}
    merge = so.get("merge_dims", 1024)
    g, m = cfg.get("graft", {}), cfg.get("momentum", {})
    has_sub = (not cfg.get("no_shampoo_options")) if so_t == "shampoo" else (so.get("sketchy") is not None)
  f = [blit(direct), zlit(0 if so_t == "shampoo" else 1), blit(has_sub), zlit(merge),
       zlit(sh.get("block_size", 1024)), zlit(sh.get("update_preconditioners_freq", 1)),
       zlit(sh.get("update_statistics_freq", 1)), qlit(sh.get("second_moment_decay", 0.999)),
       zlit(sk.get("rank", 128)), zlit(sk.get("update_freq", 1)),
       qlit(sk.get("second_moment_decay", 0.999)), blit(sk.get("add_ggt", False)),
       blit(sk.get("ekfac_svd", False)),
       zlit(GRAFT_CODE[g.get("grafting_type", "rmsprop")]), qlit(g.get("second_moment_decay", 0.999)),
       qlit(g.get("epsilon", 1e-23)), qlit(g.get("clipping_threshold", 1.0)),
       zlit(g.get("min_dim_size_to_factor", 128)), blit(g.get("multiply_by_parameter_scale", True)),
       zlit(g.get("skip_preconditioning_any_dim_gt", 4096)),
       blit(g.get("skip_preconditioning_rank1", True)),
       qlit(m.get("momentum_decay", 0.9)), qlit(m.get("weight_decay", 0.0)),
       blit(m.get("ema", False)), blit(m.get("weight_decay_after_momentum", True)),
       blit(bool(cfg.get("lr_callable"))), DTYPES[cfg.get("param_dtype", "float32")]]
  return "(mkTF %s)" % " ".join(f)


def coq_bugs(flags):
  """flags: set of bug-flag names that are ON."""
  return "(mkBugs %s)" % " ".join(blit(f in flags) for f in BUG_FLAGS)


def parse_coq(v):
  """whitespace-normalised printed Coq value built from (), [], ;, integers, true/false -> Python."""
  v = v.replace(";", ",").replace("true", "True").replace("false", "False")
  return ast.literal_eval(v)


def opt_term(s):
  return "None" if s is None else "(Some %s)" % s


def verdict_terms(case, r, flags):
  """Coq terms (list of strings) for one case under the given bug flags."""
  bugs = coq_bugs(flags)
  tree = coq_layout(tree_sig(case["tree"]))
  init = r.get("init_sig")
  obs = []
  if init is not None:
    prev = init
    for s in r.get("state_sigs", []):
      cur = prev if s is None else s
      obs.append(cur)
      prev = cur
  failed_next = (r["status"] != "ok" and init is not None and str(r.get("phase", "")).startswith("update"))
  obs_init = opt_term(coq_layout(init) if init is not None else None)
  obs_l = "[%s]" % "; ".join(coq_layout(s) for s in obs)
  opt = case["opt"]
  if opt == "ds":
    cfg = dict(case["cfg"], x64=case.get("x64", False))
    head = "ds_verdict %s %s" % (bugs, coq_dscfg(cfg))
  elif opt == "sm3":
    head = "sm3_verdict %s %s" % (bugs, DTYPES[case["cfg"].get("param_dtype", "float32")])
  else:
    head = "tf_verdict %s %s" % (bugs, coq_tfcfg(opt, case["cfg"]))
  terms = ["%s %s %s %s %s" % (head, tree, obs_init, obs_l, blit(failed_next))]
  if opt == "ds" and case["cfg"].get("mode") == "sharded" and init is not None:
    cfg = dict(case["cfg"], x64=case.get("x64", False))
    terms.append("views_verdict %s %s %s %s %s %s" % (
        bugs, coq_dscfg(cfg), tree, coq_layout(init),
        opt_term(coq_layout(r["declared_sig"]) if "declared_sig" in r else None),
        opt_term(coq_layout(r["pspec_sig"]) if "pspec_sig" in r else None)))
  return terms


# ----------------------------------------------------------------------------------------------
# consistency of an implementation record with a model verdict
# ----------------------------------------------------------------------------------------------
def consistent(case, r, vals, findings):
  """-> (ok: bool, why: str, tags: list[int]).  vals: parsed Coq results for verdict_terms."""
  # Coq prints left-nested pairs flat: ((code, tags), agree, steps, failing) -> (c, tags, a, [..], (c, tags))
  ic, itags, iagree, steps, failing = vals[0]
  icode = (ic, itags)
  seq = [("init", icode, iagree)] + [("update%d" % (k + 1), (c, t), a) for k, (c, t, a) in enumerate(steps)]
  status = r["status"]
  phase = str(r.get("phase", ""))

  def first_bad(seq):
    for name, c, a in seq:
      if c[0] != 0:
        return name, c
    return None, None

  if status == "ok":
    name, c = first_bad(seq)
    if name:
      return False, "model predicts %s at %s, implementation succeeded" % (code_str(c), name), c[1] if c[0] == 2 else []
    for name, c, a in seq:
      if not a:
        return False, "layout differs from the model's at %s" % name, []
    ups = [s for s in r.get("upd_sigs", []) if s is not None]
    if ups:
      return False, "update tree differs from the parameters' tree", []
    if len(vals) > 1:
      dcode, dagree, dstate, pcode, pagree, pmatch = unpack_views(vals[1])
      if dcode[0] != 0 or pcode[0] != 0:
        c = dcode if dcode[0] != 0 else pcode
        return False, "model predicts %s for the sharded declarations" % code_str(c), c[1] if c[0] == 2 else []
      if not dagree:
        return False, "declared shapes/dtypes differ from the model's", []
      if not pagree:
        return False, "partition specs differ from the model's", []
      if bool(r.get("views_disagree")) == (dstate and pmatch):
        return False, "sharded views: implementation says %s, model says %s" % (
            "disagree" if r.get("views_disagree") else "agree",
            "agree" if (dstate and pmatch) else "disagree"), []
    return True, "", []
  # implementation raised
  want = 1 if status == "reject" else 2
  if phase == "sharded_views":
    dcode, _, _, pcode, _, _ = unpack_views(vals[1]) if len(vals) > 1 else ((0, []), 0, 0, (0, []), 0, 0)
    for name, c, a in seq:
      if c[0] != 0 or not a:
        return False, "model disagrees before the sharded declarations (%s)" % name, []
    c = dcode if dcode[0] != 0 else pcode
    if c[0] != want:
      return False, "implementation %s in the sharded declarations, model predicts %s" % (
          status, code_str(c)), []
    if want == 2 and not any(exc_matches(f, r) for f in findings if f.get("tag") in c[1]):
      return False, "internal error does not look like any of the predicted defects %s" % c[1], c[1]
    return True, "", c[1] if want == 2 else []
  if r.get("init_sig") is None:
    if icode[0] != want:
      return False, "implementation %s in %s, model predicts %s" % (status, phase, code_str(icode)), icode[1] if icode[0] == 2 else []
    c = icode
  else:
    for name, c, a in seq:
      if c[0] != 0:
        return False, "model predicts %s at %s, implementation got further" % (code_str(c), name), []
      if not a:
        return False, "layout differs from the model's at %s" % name, []
    c = failing
    if c[0] != want:
      return False, "implementation %s in %s, model predicts %s" % (status, phase, code_str(c)), c[1] if c[0] == 2 else []
  if want == 2 and not any(exc_matches(f, r) for f in findings if f.get("tag") in c[1]):
    return False, "internal error does not look like any of the predicted defects %s" % c[1], c[1]
  return True, "", c[1] if want == 2 else []


def unpack_views(v):
  dc, dt, dagree, dstate, (pc, pt, pagree, pmatch) = v
  return (dc, dt), dagree, dstate, (pc, pt), pagree, pmatch


def code_str(c):
  return {0: "Ok", 1: "Reject%s" % c[1], 2: "Internal%s" % c[1]}[c[0]]


def exc_matches(f, r):
  m = f.get("match", {})
  if m.get("any_outcome"):
    return True
  if "type" in m and r.get("type") not in m["type"]:
    return False
  text = " ".join(str(r.get(k, "")) for k in ("where", "inner", "msg"))
  if "text_any" in m and not any(t in text for t in m["text_any"]):
    return False
  return True


# ----------------------------------------------------------------------------------------------
# generators
# ----------------------------------------------------------------------------------------------
L = lambda *s: {"k": "leaf", "shape": list(s)}

DS_OPTIONS = [
    ("block_size", [4, 1, 2, 8]),
    ("merge_small_dims_block_size", [4096, 1, 4, 6]),
    ("best_effort_shape_interpretation", [True, False]),
    ("precondtioner_type", [1, 2, 3]),
    ("compression_rank", [0, 1, 2, -1]),
    ("frequent_directions", [False, True]),
    ("reuse_preconditioner", [False, True]),
    ("reset_preconditioner", [False, True]),
    ("average_grad", [False, True]),
    ("statistics_compute_steps", [1, 2]),
    ("preconditioning_compute_steps", [1, 2]),
    ("sched", ["none", "callable", "decay"]),
    ("graft_type", [1, 0, 2, 3, 4, 5, 6]),
    ("best_effort_memory_usage_reduction", [False, True]),
    ("mode", ["plain", "pmap", "sharded1", "sharded2"]),
    ("skip_preconditioning_dim_size_gt", [4096, 3, 5]),
    ("skip_preconditioning_rank_lt", [1, 2, 0]),
    ("generate_training_metrics", [True, False]),
    ("generate_fd_metrics", [False, True]),
    ("lobpcg_topk_precondition", [0, 1, 2]),
    ("eigh", [False, True]),
    ("exponent_override", [0, 2]),
    ("moving_average_for_momentum", [False, True]),
    ("nesterov", [True, False]),
    ("decoupled_learning_rate", [True, False]),
    ("decoupled_weight_decay", [False, True]),
    ("weight_decay", [0.0, 0.01]),
    ("beta2", [0.999, 1.0, 0.5]),
    ("start_preconditioning_step", [1, 0, 2]),
    ("clip_by_scaled_gradient_norm", [None, 1.0]),
    ("relative_matrix_epsilon", [True, False]),
    ("x64", [False, True]),
    ("param_dtype", ["float32", "bfloat16"]),
]


def row_to_case(row):
  """option row -> (cfg dict for the worker, x64 flag)."""
  cfg = {}
  for k, v in row.items():
    if k == "sched":
      if v != "none":
        cfg["lr_callable"] = True
      if v == "decay":
        cfg["decay_preconditioning_compute_steps"] = True
        cfg["end_preconditioning_compute_steps"] = 4
    elif k == "mode":
      if v.startswith("sharded"):
        cfg["mode"] = "sharded"
        cfg["num_devices_for_pjit"] = int(v[-1])
      else:
        cfg["mode"] = v
    elif k == "x64":
      pass
    else:
      cfg[k] = v
  x64 = bool(row.get("x64")) and cfg.get("mode") != "sharded"
  return cfg, x64


def pairwise_rows(options, rng, tries=24, max_rows=10 ** 9):
  """greedy pairwise covering array: every pair of values of two different options occurs in
  some row."""
  names = [n for n, _ in options]
  vals = dict(options)
  uncovered = set()
  for (a, va), (b, vb) in itertools.combinations(options, 2):
    for x in range(len(va)):
      for y in range(len(vb)):
        uncovered.add((a, x, b, y))
  rows = []
  while uncovered and len(rows) < max_rows:
    best, bestc = None, -1
    seedpair = sorted(uncovered)[rng.below(len(uncovered))]
    for _ in range(tries):
      idx = {n: rng.below(len(vals[n])) for n in names}
      idx[seedpair[0]] = seedpair[1]
      idx[seedpair[2]] = seedpair[3]
      c = sum(1 for (a, b) in itertools.combinations(names, 2) if (a, idx[a], b, idx[b]) in uncovered)
      if c > bestc:
        best, bestc = idx, c
    for (a, b) in itertools.combinations(names, 2):
      uncovered.discard((a, best[a], b, best[b]))
    rows.append({n: vals[n][best[n]] for n in names})
  return rows


def make_acceptable(row, rng):
  """turn a row into one that passes option validation (most pairwise rows would be rejected by
  the FD constraints; rejected ones are kept as a separate stream)."""
  r = dict(row)
  if r["reset_preconditioner"] or r["average_grad"]:
    r["frequent_directions"] = True
  if r["frequent_directions"]:
    if r["compression_rank"] <= 0:
      r["compression_rank"] = rng.choice([1, 2])
    r["statistics_compute_steps"] = r["preconditioning_compute_steps"]
    r["reuse_preconditioner"] = True
  if r["compression_rank"] != 0 and rng.below(2):
    r["block_size"] = 8     # otherwise most compressed rows end in "all layers are too small"
  return r


DIMS = [1, 2, 3, 4, 5, 6, 8, 9]


def rand_shape(rng, rank=None):
  if rank is None:
    rank = rng.choice([0, 1, 1, 2, 2, 2, 3, 3, 4])
  return [rng.choice(DIMS) for _ in range(rank)]


def rand_tree(rng, sharded=False, big=False):
  kind = rng.choice(["dict", "dict", "dict", "list", "tuple", "nested", "empty", "bare"])
  if sharded and kind in ("list", "bare"):
    kind = "dict"
  n = rng.choice([1, 2, 2, 3])

  def leaf():
    s = rand_shape(rng)
    if big and s and rng.below(2):
      s[rng.below(len(s))] = rng.choice([9, 12, 16])
    return L(*s)
  if kind == "empty":
    return {"k": "dict", "keys": [], "ch": []}
  if kind == "bare":
    return leaf()
  if big:
    first = leaf()
    if not any(d >= 6 for d in first["shape"]):
      first = L(*(first["shape"][:2] + [rng.choice([6, 8, 9, 12])]))
    rest = [leaf() for _ in range(n - 1)]
    if kind == "dict":
      return {"k": "dict", "keys": list("abcd"[:n]), "ch": [first] + rest}
    if kind in ("list", "tuple"):
      return {"k": kind, "ch": [first] + rest}
    return {"k": "dict", "keys": ["a", "b"],
            "ch": [first, {"k": "tuple" if sharded else "list", "ch": rest or [leaf()]}]}
  if kind == "dict":
    return {"k": "dict", "keys": list("abcd"[:n]), "ch": [leaf() for _ in range(n)]}
  if kind in ("list", "tuple"):
    return {"k": kind, "ch": [leaf() for _ in range(n)]}
  return {"k": "dict", "keys": ["a", "b"],
          "ch": [leaf(), {"k": "tuple" if sharded else "list", "ch": [leaf() for _ in range(n)]}]}


BASE_TREES = [
    {"k": "dict", "keys": ["a", "b", "c", "d"], "ch": [L(3, 4), L(5), L(), L(2, 1, 3)]},
    {"k": "dict", "keys": ["a", "b"], "ch": [L(8, 6), L(1, 1)]},
    {"k": "dict", "keys": [], "ch": []},
    {"k": "dict", "keys": ["a"], "ch": [L(2, 3, 2, 2)]},
]


def gen_ds(ctx, n_pair, n_base_trees):
  rng = ctx.rng.fork()
  cases = []
  base = {n: v[0] for n, v in DS_OPTIONS}
  # (1) every option value on the base configuration x the base trees
  for name, vals in DS_OPTIONS:
    for v in vals[1:] if name != "block_size" else vals:
      row = dict(base)
      row[name] = v
      if name in ("frequent_directions", "reset_preconditioner", "average_grad",
                  "generate_fd_metrics"):
        # reach the code behind the validation as well: add an accepted variant
        cases.append(("base+" + name, make_acceptable(dict(row, **{name: v}), rng)))
      cases.append(("base", row))
  out = []
  for why, row in cases:
    for tr in BASE_TREES[:n_base_trees]:
      out.append((why, row, tr))
  # (2) pairwise covering over the full option list, random trees
  rows = pairwise_rows(DS_OPTIONS, rng)
  n_cover = len(rows)
  rng2 = ctx.rng.fork()
  while len(rows) < n_pair:       # thorough: more random rows on top of the covering array
    rows.append({n: rng2.choice(v) for n, v in DS_OPTIONS})
  final_rows = []
  for row in rows:
    raw = rng2.below(4) == 0
    r2 = row if raw else make_acceptable(row, rng2)
    sharded = r2["mode"].startswith("sharded")
    tr = rand_tree(rng2, sharded=sharded, big=(r2["lobpcg_topk_precondition"] > 0 or r2["compression_rank"] != 0))
    out.append(("pairwise-raw" if raw else "pairwise", r2, tr))
    final_rows.append(r2)
  # measured pair coverage of the rows actually run (after the FD repair)
  names = [n for n, _ in DS_OPTIONS]
  allpairs = sum(len(va) * len(vb) for (a, va), (b, vb) in itertools.combinations(DS_OPTIONS, 2))
  seen = set()
  for r in final_rows + [row for _, row in cases]:
    for a, b in itertools.combinations(names, 2):
      seen.add((a, repr(r[a]), b, repr(r[b])))
  stats = dict(covering_rows=n_cover, rows_run=len(final_rows), value_pairs=allpairs,
               value_pairs_covered=len(seen))
  return out, stats


def gen_sm3(ctx, n):
  rng = ctx.rng.fork()
  out = []
  for i in range(n):
    cfg = {}
    if rng.below(3) == 0:
      cfg["beta1"] = rng.choice([0.0, 1.0])
    if rng.below(3) == 0:
      cfg["beta2"] = rng.choice([1.0, 0.5])
    if rng.below(3) == 0:
      cfg["weight_decay"] = 0.01
    if rng.below(3) == 0:
      cfg["normalize_grads"] = True
    if rng.below(3) == 0:
      cfg["lr_callable"] = True
    tr = BASE_TREES[i] if i < len(BASE_TREES) else rand_tree(rng)
    out.append(("sm3", cfg, tr))
  return out


def gen_tf(ctx, n):
  rng = ctx.rng.fork()
  out = []

  def so_opts(valid):
    so = {}
    if rng.below(2):
      so["second_order_type"] = "sketchy"
      sk = {"rank": rng.choice([1, 2, 3, 8] if valid else [0, 1, 2, 3, 8])}
      if rng.below(3) == 0:
        sk["update_freq"] = rng.choice([2] if valid else [0, 2])
      if rng.below(3) == 0:
        sk["second_moment_decay"] = rng.choice([1.0, 0.0] if valid else [1.0, 0.0, 1.5])
      for k in ("add_ggt", "ekfac_svd", "linear_approx_tail"):
        if rng.below(3) == 0:
          sk[k] = True
      if rng.below(4) == 0:
        sk["relative_epsilon"] = False
      if rng.below(4) == 0:
        sk["epsilon"] = 0.0
      if valid or rng.below(5):
        so["sketchy"] = sk
    else:
      sh = {"block_size": rng.choice([2, 3, 4, 1024] if valid else [2, 3, 4, 1, 0, 1024])}
      if rng.below(3) == 0:
        sh["update_preconditioners_freq"] = rng.choice([2] if valid else [0, 2])
      if rng.below(3) == 0:
        sh["update_statistics_freq"] = rng.choice([2] if valid else [0, 2])
      if rng.below(3) == 0:
        sh["second_moment_decay"] = rng.choice([1.0, 0.0] if valid else [1.0, 0.0, -0.125])
      so["shampoo"] = sh
    if rng.below(2):
      so["merge_dims"] = rng.choice([2, 4, 6] if valid else [1, 2, 4, 6])
    return so

  for i in range(n):
    valid = rng.below(3) != 0
    if rng.below(4) == 0:
      so = so_opts(valid)
      cfg = {"second_order_type": so.get("second_order_type", "shampoo")}
      if "shampoo" in so:
        cfg["shampoo"] = so["shampoo"]
      cfg["sketchy"] = so.get("sketchy", {"rank": 2})
      out.append(("tfso", cfg, rand_tree(rng)))
      continue
    g = {"grafting_type": rng.choice(["none", "sgd", "rmsprop", "adafactor"])}
    if rng.below(3) == 0:
      g["second_moment_decay"] = rng.choice([0.5] if valid else [0.0, 1.0, 0.5])
    if rng.below(3) == 0:
      g["start_preconditioning_step"] = rng.choice([1, 2])
    if rng.below(3) == 0:
      g["skip_preconditioning_any_dim_gt"] = rng.choice([3, 5])
    if rng.below(3) == 0:
      g["skip_preconditioning_rank1"] = False
    if rng.below(3) == 0:
      g["min_dim_size_to_factor"] = rng.choice([2, 4] if valid else [0, 2, 4])
    if rng.below(6) == 0:
      g["clipping_threshold"] = rng.choice([2.0] if valid else [0.5, 2.0])
    if rng.below(6) == 0:
      g["epsilon"] = rng.choice([1e-3] if valid else [-1.0, 1e-3])
    if rng.below(4) == 0:
      g["multiply_by_parameter_scale"] = False
    m = {}
    if rng.below(3) == 0:
      m["ema"] = True
    if rng.below(3) == 0:
      m["nesterov"] = False
    if rng.below(3) == 0:
      m["momentum_decay"] = rng.choice([0.0, 1.0] if valid else [0.0, 1.0, 1.5])
    if rng.below(3) == 0:
      m["weight_decay"] = rng.choice([0.01] if valid else [0.01, -1.0])
    if rng.below(3) == 0:
      m["weight_decay_after_momentum"] = False
    cfg = {"graft": g, "second_order": so_opts(valid), "momentum": m}
    if not valid and rng.below(8) == 0 and cfg["second_order"].get("second_order_type") != "sketchy":
      cfg["no_shampoo_options"] = True
      cfg["second_order"].pop("shampoo", None)
    if rng.below(4) == 0:
      cfg["lr_callable"] = True
    out.append(("tf", cfg, rand_tree(rng)))
  return out


def gen_tf_large_dims(ctx):
  """Tearfree Shampoo handles at most two blocked ("large": d >= block_size) axes per parameter and must
  reject more explicitly at init.  Structured family around that boundary: 2, 3 or 4 axes at / above the
  block size, equal to it or strictly larger, with unit and small axes in between; merge_dims = block_size
  keeps the axes apart (added after a seeded change was missed: the rejection compared with > instead
  of >=, so only dims exactly equal to the block size exposed it)."""
  rng = ctx.rng.fork()
  out = []
  for b in (2, 3, 4):
    shapes = [[b, b, b], [b, 2 * b, 2 * b], [2 * b, b, 2 * b], [b + 1, b, b], [b, b], [2 * b, b],
              [2 * b, 2 * b, 2 * b], [b, 1, b, b], [b, b, b, b], [2 * b, 1, b], [b + 1, 2 * b, b - 1 or 1, b]]
    for sh in shapes:
      cfg = {"graft": {"grafting_type": rng.choice(["none", "sgd", "rmsprop"])},
             "second_order": {"shampoo": {"block_size": b}, "merge_dims": b}, "momentum": {}}
      if rng.below(3) == 0:
        cfg["second_order"]["merge_dims"] = 2 * b
      out.append(("tf", cfg, {"k": "dict", "keys": ["w"], "ch": [L(*sh)]}))
  return out


def gen_sharded_sizes(ctx, n_random):
  """Sharded runs in which the padded statistics size [N, S, S] is decided by WHICH parameters are
  preconditioned: a parameter excluded by skip_preconditioning_rank_lt / _dim_size_gt whose
  (merged, blocked) dimension is larger than / equal to / smaller than every statistic of the
  preconditioned ones, first or last in the tree, all skipped, none skipped -- x block size (sizes
  saturating at the block size or not) x compression x device count.  init, declared shapes and
  partition specs must describe ONE tree in all of them (and the model's sh_max must pick the size
  from the preconditioned parameters only)."""
  rng = ctx.rng.fork()
  fams = [
      ({"skip_preconditioning_rank_lt": 2},
       [[(3, 4), (14,)], [(3, 4), (5,)], [(3, 4), (12,)], [(14,), (3, 4)], [(14,), (5,)],
        [(3, 4), (2, 5)], [(2, 2), (9,)], [(3, 4), (14,), (20,)], [(14,), (2, 3, 2), ()]]),
      ({"skip_preconditioning_dim_size_gt": 12},
       [[(2, 3), (6,), (40, 2)], [(2, 3), (6,), (13,)], [(40, 2), (2, 3)], [(40,), (13, 2)],
        [(2, 3), (6,)], [(12, 2), (13, 3)]]),
  ]
  out = []
  k = 0
  for skip, trees in fams:
    for shapes in trees:
      for block in (16, 4):
        for cr in (0, 2):
          k += 1
          cfg = dict(skip, block_size=block, mode="sharded", num_devices_for_pjit=1 + k % 2)
          if cr:
            cfg["compression_rank"] = cr
          if k % 5 == 0:
            cfg["best_effort_shape_interpretation"] = False
          if k % 7 == 0:
            cfg["best_effort_memory_usage_reduction"] = True
          out.append((cfg, shapes))
  for _ in range(n_random):
    nw = rng.choice([1, 2])
    ws = [tuple(rng.choice([2, 3, 4, 5]) for _ in range(rng.choice([2, 2, 3]))) for _ in range(nw)]
    if rng.below(2):
      skip = {"skip_preconditioning_rank_lt": 2}
      sk = [(rng.choice([3, 7, 11, 14, 20, 33]),) for _ in range(rng.choice([1, 2]))]
    else:
      g = rng.choice([5, 12])
      skip = {"skip_preconditioning_dim_size_gt": g}
      sk = [tuple(rng.shuffle([g + rng.choice([1, 4, 20]), rng.choice([1, 2, 3])])[:rng.choice([1, 2])])
            for _ in range(rng.choice([1, 2]))]
      sk = [t if any(d > g for d in t) else (g + 3,) for t in sk]
    shapes = rng.shuffle(ws + sk)
    cfg = dict(skip, block_size=rng.choice([2, 4, 8, 16, 64]), mode=rng.choice(["sharded", "sharded", "plain"]),
               num_devices_for_pjit=rng.choice([1, 2]))
    if rng.below(3) == 0:
      cfg["compression_rank"] = rng.choice([1, 2, -1])
    if rng.below(3) == 0:
      cfg["merge_small_dims_block_size"] = rng.choice([1, 4, 6])
    if rng.below(4) == 0:
      cfg["precondtioner_type"] = rng.choice([2, 3])
    out.append((cfg, shapes))
  cases = []
  for cfg, shapes in out:
    tr = {"k": "dict", "keys": list("abcd"[:len(shapes)]), "ch": [L(*sh) for sh in shapes]}
    cases.append(dict(opt="ds", cfg=cfg, x64=False, tree=tr, why="sharded-max-size"))
  return cases


def gen_cases(ctx):
  quick = ctx.tier == "quick"
  cases = []
  ds_rows, stats = gen_ds(ctx, 110 if quick else 2200, 1 if quick else 4)
  ctx.cov["pairwise"] = stats
  rngd = ctx.rng.fork()
  for why, row, tr in ds_rows:
    cfg, x64 = row_to_case(row)
    cases.append(dict(opt="ds", cfg=cfg, x64=x64, tree=with_dtype(tr, cfg.get("param_dtype", "float32")),
                      why=why, row=row))
  for why, cfg, tr in gen_sm3(ctx, 10 if quick else 150):
    if rngd.below(3) == 0:
      cfg = dict(cfg, param_dtype="bfloat16")
    cases.append(dict(opt="sm3", cfg=cfg, x64=False, tree=with_dtype(tr, cfg.get("param_dtype", "float32")),
                      why=why))
  for opt, cfg, tr in gen_tf(ctx, 60 if quick else 700):
    if rngd.below(4) == 0:
      cfg = dict(cfg, param_dtype="bfloat16")
    cases.append(dict(opt=opt, cfg=cfg, x64=False, tree=with_dtype(tr, cfg.get("param_dtype", "float32")),
                      why=opt))
  cases += gen_sharded_sizes(ctx, 20 if quick else 400)
  for opt, cfg, tr in gen_tf_large_dims(ctx):
    cases.append(dict(opt=opt, cfg=cfg, x64=False, tree=with_dtype(tr, "float32"), why="tf-large-dims"))
  for i, c in enumerate(cases):
    c["id"] = i
    c["T"] = 3
    c["seed"] = ctx.rng.next() % 100000
  return cases


# ----------------------------------------------------------------------------------------------
# running
# ----------------------------------------------------------------------------------------------
def _run_chunk(chunk, x64):
  payload = dict(cases=[{k: c[k] for k in ("id", "opt", "cfg", "tree", "T", "seed")} for c in chunk])
  try:
    return common.run_worker(WORKER, payload, x64=x64, devices=2, timeout=3000)["results"]
  except Exception as e:  # pylint: disable=broad-except
    if len(chunk) == 1:
      return [dict(id=chunk[0]["id"], status="internal", phase="crash", type="ProcessCrash",
                   msg=str(e)[:300], where="", inner="", own_raise=False, secs=0)]
    h = len(chunk) // 2
    return _run_chunk(chunk[:h], x64) + _run_chunk(chunk[h:], x64)


def run_impl(cases, chunk=40):
  """chunks of <= `chunk` cases per worker process (bounds the memory of the jit caches), NPROC
  processes at a time; a crashing process is bisected down to the crashing case."""
  import concurrent.futures as cf
  groups = []
  for x64 in (False, True):
    sel = [c for c in cases if bool(c.get("x64")) == x64]
    n = max(1, -(-len(sel) // chunk), min(common.NPROC, len(sel)))
    for i in range(n):
      ch = sel[i::n]
      if ch:
        groups.append((ch, x64))
  with cf.ThreadPoolExecutor(max_workers=common.NPROC) as ex:
    outs = list(ex.map(lambda g: _run_chunk(*g), groups))
  return {r["id"]: r for o in outs for r in o}


def evaluate(ctx, cases, res, flags_of, tag):
  """Coq verdicts for the given cases; flags_of(case) -> set of bug flags.  Returns id -> vals."""
  terms, owner = [], []
  for c in cases:
    ts = verdict_terms(c, res[c["id"]], flags_of(c))
    for t in ts:
      terms.append(t)
      owner.append(c["id"])
  vals = ctx.coq_eval(tag, HEADER, terms, per_shard=max(4, len(terms) // common.NPROC + 1))
  out = {}
  for cid, v in zip(owner, vals):
    out.setdefault(cid, []).append(parse_coq(v))
  return out


def finding_for_flag(findings, flag):
  for f in findings:
    if f.get("bug") == flag and f.get("status") == "open":
      return f
  return None


def classify(ctx, cases, res, findings):
  """-> list of (case, kind, detail) where kind in ok | known:<id> | impl-violates |
  correspondence-broken."""
  byid = {c["id"]: c for c in cases}
  v_rep = evaluate(ctx, cases, res, lambda c: set(), "rep")
  verdicts = {}
  pending = []
  for c in cases:
    r = res[c["id"]]
    ok, why, tags = consistent(c, r, v_rep[c["id"]], findings)
    if ok:
      verdicts[c["id"]] = ("ok", "")
    else:
      pending.append(c)
      verdicts[c["id"]] = ("mismatch", why)
  # defect flags that are still open (known_findings.json / proposed findings); flags of defects
  # that have been fixed in /repo stay off, so "as-is" always means the CURRENT tree
  open_flags = [fl for fl in BUG_FLAGS if finding_for_flag(findings, fl) is not None]
  if pending:
    v_asis = evaluate(ctx, pending, res, lambda c: set(open_flags), "asis")
    need_single = []
    for c in pending:
      r = res[c["id"]]
      ok, why2, tags = consistent(c, r, v_asis[c["id"]], findings)
      why = verdicts[c["id"]][1]
      if not ok:
        # does an 'any_outcome' finding cover the as-is prediction?
        anyf = [f for f in findings if f.get("match", {}).get("any_outcome") and f.get("status") == "open"
                and f.get("tag") in tags]
        if anyf:
          verdicts[c["id"]] = ("known:" + anyf[0]["id"], why)
          continue
        kind = "impl-violates" if (r["status"] == "internal" or r.get("oracle_why")) else "correspondence-broken"
        verdicts[c["id"]] = (kind, "repaired model: %s; as-is model: %s" % (why, why2))
        continue
      if r["status"] == "internal":
        fs = [f for f in findings if f.get("tag") in tags and exc_matches(f, r) and f.get("status") == "open"]
        if fs:
          verdicts[c["id"]] = ("known:" + fs[0]["id"], why)
        else:
          verdicts[c["id"]] = ("impl-violates", "%s (as-is model attributes it to defect tag(s) %s; "
                               "no open finding covers it)" % (why, tags))
      else:
        need_single.append(c)
    # layout / rejection differences: which single defect flag explains the observation?
    if need_single:
      singles = {}
      for flag in open_flags:
        vs = evaluate(ctx, need_single, res, lambda c, flag=flag: {flag}, "single_" + flag)
        for c in need_single:
          ok, _, _ = consistent(c, res[c["id"]], vs[c["id"]], findings)
          if ok:
            singles.setdefault(c["id"], []).append(flag)
      # several defects at once: the flags whose removal from as_is breaks the agreement
      multi = [c for c in need_single if not singles.get(c["id"])]
      necessary = {}
      if multi:
        for flag in open_flags:
          vs = evaluate(ctx, multi, res, lambda c, flag=flag: set(open_flags) - {flag}, "without_" + flag)
          for c in multi:
            ok, _, _ = consistent(c, res[c["id"]], vs[c["id"]], findings)
            if not ok:
              necessary.setdefault(c["id"], []).append(flag)
      for c in need_single:
        r = res[c["id"]]
        why = verdicts[c["id"]][1]
        flags = singles.get(c["id"], [])
        f = None
        for fl in flags:
          f = finding_for_flag(findings, fl)
          if f:
            break
        if f is None and not flags and necessary.get(c["id"]):
          fs = [finding_for_flag(findings, fl) for fl in necessary[c["id"]]]
          if all(fs):
            verdicts[c["id"]] = ("known:" + "+".join(x["id"] for x in fs), why)
            continue
          flags = necessary[c["id"]]
        if f is not None:
          verdicts[c["id"]] = ("known:" + f["id"], why)
        else:
          kind = "impl-violates" if (r.get("oracle_why") or r["status"] != "ok") else "correspondence-broken"
          verdicts[c["id"]] = (kind, "%s (today's behaviour is the as-is model's, defect flag(s) %s; "
                               "no open finding covers it)" % (why, flags or "several"))
  return verdicts


def histogram(ctx, cases, res):
  for c in cases:
    r = res[c["id"]]
    ctx.count("opt=" + c["opt"])
    ctx.count("outcome=%s" % r["status"])
    if r["status"] != "ok":
      ctx.count("error=%s@%s" % (r.get("type"), (r.get("inner") or r.get("where") or "").split(" ")[-1][:40]))
    if r.get("used_vmap"):
      ctx.count("pmap-via-vmap(zero-size leaves)")
    if c["opt"] == "ds":
      for k, v in sorted(c.get("row", {}).items()):
        ctx.count("ds.%s=%s" % (k, v))
      if c.get("why") == "sharded-max-size":
        ctx.count("family=sharded-max-size")
    leaves = tree_leaves(c["tree"])
    ctx.count("tree.nleaves=%d" % len(leaves))
    ctx.count("tree.kind=%s" % c["tree"]["k"])
    ctx.count("param_dtype=%s" % c["cfg"].get("param_dtype", "float32"))
    for s in leaves:
      ctx.count("leaf.rank=%d" % len(s))
      if 1 in s:
        ctx.count("leaf.has_unit_dim")


def load_corpus():
  d = os.path.join(common.VERIF, "corpus", PID)
  out = []
  if os.path.isdir(d):
    for fn in sorted(os.listdir(d)):
      if fn.endswith(".json"):
        rec = json.load(open(os.path.join(d, fn)))
        for c in rec.get("cases", [rec.get("input")] if rec.get("input") else []):
          c = dict(c)
          c["why"] = "corpus:" + fn
          out.append(c)
  return out


def run(ctx):
  ctx.cov["rule"] = (
      "Distributed Shampoo: every option value on a base configuration x base trees, plus a greedy "
      "pairwise covering array over the full option list (33 options incl. parameter dtype float32/bfloat16, execution mode "
      "replicated/pmap/sharded(1,2 devices) and jax_enable_x64), 3/4 of the rows repaired to satisfy "
      "the FD constraints (and, for half of the compressed rows, block_size 8 with one dimension >= 6 so that compression really applies), x random parameter trees (dict/list/tuple/nested/empty/bare array, rank "
      "0-4, unit dims); SM3; Tearfree (grafting x Shampoo/Sketchy x momentum options incl. invalid "
      "values, and the second-order transforms alone on raw shapes); a structured sharded family in "
      "which a parameter excluded from preconditioning is larger / equal / smaller than every "
      "statistic of the preconditioned ones (first/last, all skipped, none skipped) x block size x "
      "compression x devices, plus random members.  Every case: init + 3 updates. "
      "A case is distinct by (optimizer, configuration, tree) and non-trivial when the optimizer "
      "was constructed and init ran (rejections by option validation are trivial).")
  ctx.assumptions += [
      "Coq 8.16.1 kernel + vm_compute",
      "the layout model is hand-written; it is tied to the code by this correspondence (sampled) "
      "and, for the shape arithmetic it imports from C06.Ref, by the translator obligations of C06",
      "optax transformation states (trace, adafactor, scale, add_decayed_weights) are modelled as "
      "observed and assumed layout-preserving",
      "jax.tree_util.default_registry.flatten_one_level is the ground truth for tree structure and "
      "static metadata",
      "pmap cases whose state has zero-size leaves run under jax.vmap(axis_name=...) because "
      "jaxlib's CPU pmap segfaults on zero-size operands (independent of precondition)"]
  ctx.proofs(PROPS, extra_targets=["theories/C07/Check.vo"], dirs=["C06"])
  findings = common.load_known_findings(PID)
  corpus = load_corpus()
  cases = gen_cases(ctx)
  for i, c in enumerate(corpus):
    c = dict(c)
    c["id"] = len(cases)
    c.setdefault("T", 3)
    c.setdefault("seed", 1)
    c.setdefault("x64", False)
    cases.append(c)
  ctx.log("%d cases (%d from corpus)" % (len(cases), len(corpus)))
  t0 = time.time()
  res = run_impl(cases)
  ctx.log("implementation runs done in %.0fs" % (time.time() - t0))
  histogram(ctx, cases, res)
  verdicts = classify(ctx, cases, res, findings)
  reported = set()
  for c in cases:
    r = res[c["id"]]
    kind, why = verdicts[c["id"]]
    key = json.dumps([c["opt"], c["cfg"], c.get("x64"), c["tree"]], sort_keys=True)
    nontrivial = r.get("init_sig") is not None
    ctx.case(key, nontrivial,
             sample=dict(case={k: c[k] for k in ("opt", "cfg", "x64", "tree")}, status=r["status"],
                         phase=r.get("phase"), verdict=kind) if c["id"] % 37 == 0 else None)
    ctx.count("verdict=" + kind.split(":")[0])
    if kind == "ok":
      continue
    if kind.startswith("known:"):
      for fid in kind[6:].split("+"):
        if fid not in reported:
          reported.add(fid)
          f = [x for x in findings if x["id"] == fid][0]
          ctx.known("%s %s [witness: %s]" % (fid, f["title"], json.dumps(
              dict(opt=c["opt"], cfg=c["cfg"], x64=c.get("x64"), tree=c["tree"]))[:400]))
        ctx.count("known=" + fid)
      continue
    sigk = (kind, r.get("type"), (r.get("inner") or "")[:60], why[:60])
    if sigk in reported:
      ctx.count("duplicate-violation-suppressed")
      continue
    reported.add(sigk)
    rec = dict(input={k: c[k] for k in ("opt", "cfg", "x64", "tree", "T", "seed")},
               expected="model (repaired behaviour) and property C07",
               actual=dict(status=r["status"], phase=r.get("phase"), exc=r.get("type"),
                           msg=r.get("msg"), where=r.get("where"), inner=r.get("inner"),
                           oracle=r.get("oracle_why")),
               why=why, theorem_or_check="C07 correspondence (Check.ds_verdict / tf_verdict / "
               "sm3_verdict / views_verdict) and implementation-side oracle")
    ctx.violation(kind, rec, no_input=(kind == "correspondence-broken"))
  ctx.flush_proof_failures()


def replay(ctx, rec):
  c = rec.get("input")
  if not isinstance(c, dict) or "opt" not in c:
    print("replay: nothing executable in this record (%s)" % rec.get("theorem_or_check"))
    return 1
  c = dict(c)
  c["id"] = 0
  ctx.proofs(PROPS, extra_targets=["theories/C07/Check.vo"], dirs=["C06"])
  findings = common.load_known_findings(PID)
  res = run_impl([c])
  r = res[0]
  print(json.dumps({k: v for k, v in r.items() if not k.endswith("_sig") and not k.endswith("_sigs")},
                   indent=1)[:3000])
  verdicts = classify(ctx, [c], res, findings)
  kind, why = verdicts[0]
  print("verdict:", kind, "|", why)
  bad = not (kind == "ok")
  print("REPLAY %s" % ("reproduces" if bad else "does not reproduce"))
  return 1 if bad else 0
