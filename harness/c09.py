"""C09 — frequent-directions sketch brackets the true second moment.

Deciding method: Coq theorems (Properties/C09.v): every FD step / history preserves
B <= C <= B + t I for every SVD answer meeting its spec (Bessel proved), tail recurrence, exact
tracking when cut-offs vanish.  Tie: the three implementations are run step by step with every
SVD call captured; Coq (vm_compute, exact rationals) checks per step that (1) the matrix handed to
the SVD is b*(B+R)+GG^T of the implementation's own previous state, (2) the captured answer meets
the spec, (3) the stored (l', t') follow the model's recurrence, (4..7) the property itself on the
implementation's state: orthonormal-or-zero, non-negativity, the bracket against the exact
covariance (verified LDL^T PSD checker), stored inverse roots."""
import json

from harness import common
from harness.common import dylit, dylist, dymat, zlit

HEADER = ("From Precond Require Import Base.QMat Base.PsdCheck C09.Model C09.Check.\n"
          "Open Scope Q_scope.\n")

CODES = {1: "matrix handed to the SVD is not b*(B+R)+G G^T of the previous state",
         2: "captured SVD answer violates its spec (oracle monitor)",
         3: "(l', t') do not follow l' = s_i^2 - s_k^2, t' = b t + s_k^2",
         4: "stored directions are not orthonormal-or-zero",
         5: "negative eigenvalue or escaped mass",
         6: "bracket V l V' <= C <= V l V' + t I fails against the exact covariance",
         7: "stored inverse roots are not (l + t + eps)^(-1/p)",
         8: "escaped mass exceeds its budget (k+1) t <= tr C - sum l (t does not follow t' = b t + r)"}
PROPERTY_CODES = (3, 4, 5, 6, 7, 8)


def q(x):
  return "(dy2q %s)" % dylit(x)


def vecs(cols):
  return "[" + "; ".join("dyvec %s" % dylist(c) for c in cols) + "]"


def rec_term(st):
  l = "(dyvec %s)" % dylist(st["l"]) if "l" in st else "(sqv (dyvec %s))" % dylist(st["sqrt_l"])
  return "(mkrec (dymat %s) (dymat %s) %s (dyvec %s) %s %s %s (dyvec %s) %s %s %s %s)" % (
      dymat(st["G"]), dymat(st["F"]), vecs(st["U"]), dylist(st["s"]), vecs(st["V"]), l,
      q(st["t"]), dylist(st["inv"]), q(st["const"]), q(st["epsR"]), q(st["eps_abs"]),
      q(st["eps_rel"]))


def hist_term(r, tol, tau):
  steps = r["steps"]
  if r["case"]["impl"] == "oco":
    # the OCO sketch keeps ell rows; the last has eigenvalue 0: compare the first k entries
    steps = [dict(s, sqrt_l=s["sqrt_l"][:r["k"]], V=s["V"][:r["k"]]) for s in steps]
  return "chk_history %s %s %s %d%%nat %d%%nat %d%%positive [%s]" % (
      tol, tau, q(r["b"]), r["k"], r["n"], r["p"], "; ".join(rec_term(s) for s in steps))


def states_terms(r, tol, tau):
  out = []
  for ax in r["axes"]:
    out.append("chk_states %s %s %s %d%%nat %d%%positive [%s]" % (
        tol, tau, q(r["b"]), ax["n"], r["p"], "; ".join(rec_term(s) for s in ax["steps"])))
  return out


def gen_cases(ctx):
  rng = ctx.rng
  quick = ctx.tier == "quick"
  n_each = 45 if quick else 220
  hk = ["normal", "int", "lowrank", "zero_mixed", "scale", "small", "large"]
  bs = [1.0, 0.5, 0.9, 0.999]
  ds_cases, tf_cases, oco_cases = [], [], []
  for i in range(n_each):
    d = rng.rint(4, 6 if quick else 7)
    k = rng.rint(1, d - 3)
    pad = rng.choice([None, None, d - 1]) if d - 1 > k + 2 else None
    ds_cases.append(dict(impl="ds", seed=rng.next(), d=d, k=k, T=rng.rint(1, 5 if quick else 8),
                         b=rng.choice(bs), m=rng.rint(1, 4), pad_start=pad, p=rng.choice([2, 4, 6]),
                         hist=hk[i % len(hk)], ridge=rng.choice([0.0, 0.0, 1e-6])))
    if i % 3 == 1:
      # the gradient as a rank-3 tensor with the sketched axis first / in the middle / last (the
      # contraction over "all other axes" is an unfolding; added after a seeded change was missed)
      td = [rng.rint(1, 3), rng.rint(2, 3)]
      ds_cases[-1].update(m=td[0] * td[1], tdims=td, axis=i // 3 % 3)
    d = rng.rint(2, 5 if quick else 6)
    tf_cases.append(dict(impl="tf", seed=rng.next(), d=d, k=rng.rint(1, min(3, d)),
                         T=rng.rint(1, 5 if quick else 8), b=rng.choice(bs), m=rng.rint(2, 4),
                         hist=hk[i % len(hk)], eps=rng.choice([1e-7, 0.0, 1e-3]),
                         rel_eps=bool(rng.below(2))))
    if i % 3 == 2:
      td = [rng.rint(2, 3), rng.rint(2, 3)]        # tearfree rejects unit dimensions
      tf_cases[-1].update(m=td[0] * td[1], tdims=td, axis=i // 3 % 3)
    d = rng.rint(3, 6)
    oco_cases.append(dict(impl="oco", seed=rng.next(), d=d, ell=rng.rint(2, min(4, d)),
                          T=rng.rint(1, 6 if quick else 10), hist=hk[i % len(hk)],
                          algo=rng.choice(["S_ADA", "S_ADA", "ADA_FD", "RFD_SON", "FD_SON"]),
                          delta=rng.choice([0.5, 0.0, 1e-3]), lr=rng.choice([0.25, 0.125])))
  # Distributed Shampoo's FD root inside the optimizer (public init/update; vmap => no SVD capture)
  opt_cases = []
  for i in range(10 if quick else 60):
    k = rng.rint(1, 2)
    opt_cases.append(dict(impl="ds_opt", seed=rng.next(), d0=rng.rint(k + 3, 5 if quick else 6),
                          d1=rng.rint(k + 3, 5 if quick else 6), k=k, T=rng.rint(2, 4 if quick else 6),
                          b=rng.choice(bs), hist=hk[i % len(hk)], ridge=rng.choice([0.0, 1e-6]),
                          expo=rng.choice([0, 0, 2])))
  return ds_cases + tf_cases + opt_cases, oco_cases


def run_impl(cases32, cases64):
  n = common.NPROC
  out = []
  for cases, x64 in ((cases32, False), (cases64, True)):
    chunks = [c for c in (cases[i::n] for i in range(n)) if c]
    if not chunks:
      continue
    res = common.run_workers_parallel("harness.impl.c09_worker", [dict(cases=c) for c in chunks],
                                      x64=x64, timeout=3000)
    out += [r for o in res for r in o["results"]]
  return out


def tol_of(r):
  if r["case"]["impl"] == "oco":
    return "(1 # 1099511627776)", "(1 # 1099511627776)"     # 2^-40 (float64)
  return "(1 # 131072)", "(1 # 131072)"                      # 2^-17 (float32)


def evaluate(ctx, results, tag):
  terms, idx = [], []
  for i, r in enumerate(results):
    if "exc" in r:
      continue
    tol, tau = tol_of(r)
    try:
      if r["case"]["impl"] == "ds_opt":
        ts = list(states_terms(r, tol, tau))
      else:
        ts = [hist_term(r, tol, tau)]
    except ValueError as e:      # NaN / Inf has no dyadic form: reported with the case as failing input
      r["exc"] = "non-finite value in the implementation's output for finite input (%s)" % e
      continue
    terms += ts
    idx += [i] * len(ts)
  vals = ctx.coq_eval(tag, HEADER, terms, per_shard=8, timeout=1800)
  for i, v in zip(idx, vals):
    code = int(v.replace("%Z", "").replace("(", "").replace(")", ""))
    if results[i]["case"]["impl"] == "ds_opt":
      results[i].setdefault("axis_codes", []).append(code)
      results[i].setdefault("code", 0)
    elif results[i].get("code", 0) == 0:
      results[i]["code"] = code
  return results


def report(ctx, results):
  seen = set()
  known = common.load_known_findings("C09")
  d16 = [k for k in known if k.get("id") == "C09-D16"]
  for r in results:
    # optimizer path: one verdict per axis; the open finding C09-D16 covers exactly the statistics
    # smaller than the largest one of the tree
    if "axis_codes" in r and "exc" not in r:
      c = r["case"]
      dims = (c["d0"], c["d1"])
      for ax, code in enumerate(r["axis_codes"]):
        if code == 0:
          continue
        if d16 and dims[ax] < max(dims):
          if "C09-D16" not in seen:
            seen.add("C09-D16")
            ctx.known("C09-D16 FD sketch of a statistic smaller than the tree's largest is corrupted by "
                      "row padding/slicing of the packed preconditioner (witness: %s axis %d, code %d)"
                      % (json.dumps(c), ax, code % 100))
          continue
        if r["code"] == 0:
          r["code"] = code
          r["failing_axis"] = ax
  for r in results:
    c = r["case"]
    key = json.dumps(c, sort_keys=True)
    if "exc" in r:
      ctx.case(key, False)
      ctx.count("exception")
      sig = ("exc", c["impl"], r["exc"][:60])
      if sig not in seen:
        seen.add(sig)
        ctx.violation("impl-violates", dict(input=c, expected="FD step runs", actual=r["exc"],
                                            trace=r.get("trace"),
                                            theorem_or_check="harness/impl/c09_worker.py"))
      continue
    steps_all = r["steps"] if "steps" in r else [s for ax in r["axes"] for s in ax["steps"]]
    if "steps" in r:
      nontrivial = any(max(s["s"][r["k"]:] + [0.0]) > 0 for s in steps_all)  # some mass escapes
    else:
      nontrivial = any(s["t"] > 0 for s in steps_all)
    ctx.case(key, nontrivial,
             sample=dict(case=c, last_state=dict(l=steps_all[-1].get("l", steps_all[-1].get("sqrt_l")),
                                                 t=steps_all[-1]["t"]), code=r["code"])
             if ctx.cov["evaluations"] % 17 == 0 else None)
    ctx.count("%s/%s" % (c["impl"], c["hist"]))
    ctx.count("steps", len(steps_all))
    if r["code"] == 0:
      continue
    step, code = divmod(r["code"], 100)
    sig = (c["impl"], code)
    if sig in seen:
      continue
    seen.add(sig)
    kind = "impl-violates" if code in PROPERTY_CODES else "correspondence-broken"
    ctx.violation(kind, dict(
        input=c, step=step, code=code, expected="chk_history = 0", actual=CODES[code],
        theorem_or_check="C09.Check.chk_history (code %d) / theorems c09_fd_step_bracket, "
        "c09_tail_recurrence" % code,
        state_at_failure={k: v for k, v in (r["steps"] if "steps" in r else
                                            r["axes"][0]["steps"])[min(step, len(r.get("steps", r.get("axes", [{}])[0].get("steps", []))) - 1)].items()
                          if k in ("l", "sqrt_l", "t", "t_prev", "s", "inv", "const")}),
        no_input=False)


def run(ctx):
  ctx.cov["rule"] = (
      "gradient histories (kinds: normal / 4-bit integer / rank<=k / with zero steps / "
      "scale-varying 1e-3..1e3 / uniformly tiny 1e-6..1e-4 / uniformly huge 1e4..1e6) x dimension x rank k x decay in {1,.5,.9,.999} x padding x ridge, "
      "for Distributed Shampoo _fd_update_root, Tearfree Sketchy _update_axis and the OCO "
      "_fd_update_fn; distinct by generator parameters, non-trivial when some spectral mass "
      "escapes the sketch (s[k] > 0 at some step)")
  ctx.assumptions += [
      "Coq 8.16.1 kernel + vm_compute",
      "SVD/QR are oracles: theorems hold for every answer meeting svd_spec; each captured answer is "
      "checked against the spec to tolerance 2^-17 (float32) / 2^-40 (float64) relative",
      "rounding of the implementations' float arithmetic is absorbed by those relative tolerances",
      "rank<=k history => zero cut-off is a property of the SVD; it is monitored, not proved"]
  ctx.proofs(["Properties/C09.v"], extra_targets=["theories/C09/Check.vo"])
  c32, c64 = gen_cases(ctx)
  ctx.log("%d float32 histories, %d float64 histories" % (len(c32), len(c64)))
  results = run_impl(c32, c64)
  results = evaluate(ctx, results, "hist")
  report(ctx, results)


def replay(ctx, rec):
  c = rec.get("input")
  if not isinstance(c, dict) or "impl" not in c:
    print("replay: nothing executable in this record")
    return 1
  ctx.proofs(["Properties/C09.v"], extra_targets=["theories/C09/Check.vo"])
  res = run_impl([c] if c["impl"] != "oco" else [], [c] if c["impl"] == "oco" else [])
  res = evaluate(ctx, res, "replay")
  r = res[0]
  print("code:", r.get("code"), r.get("exc"))
  bad = ("exc" in r) or r.get("code", 0) != 0
  print("REPLAY %s" % ("reproduces" if bad else "does not reproduce"))
  return 1 if bad else 0
