"""C14 — training resumes bit-identically from serialized optimizer state at any step.

Deciding method: Coq theorems (Properties/C14.v) about an abstract pytree model: serialize keeps
the dynamic leaves, restore re-attaches the template's static skeleton, restore o serialize = id
on states with the template's skeleton, hence -- for every pure step function that keeps the static
skeleton (C07's layout fixed point), every history and every crash point -- the resumed run is the
suffix of the uninterrupted run; with state outside the pytree the statement is refuted.

Tie to /repo (harness/impl/c14_worker.py): for optimizers x crash points k = 0..T the real state is
serialized with flax.serialization.to_bytes, restored into the init state of a FRESHLY constructed
optimizer object (same hyper-parameters) and training continues; restored state, every later update
and the final state are compared bitwise (shape, dtype, bytes per leaf; canonical tree signature)
with the uninterrupted run -- in jit/pmap mode, in eager mode (the Python code of update runs at
every step, so Python-side state would show) and, for one crash point per configuration, in a NEW
PROCESS.  Also: update evaluated twice on equal inputs; two optimizer objects interleaved vs
isolated; a scan of closures / module globals for mutable Python state that changes while updates
run.  Model vs flax: the leaves flax's state dict contains (order, shapes, dtypes) must be exactly
what the model's serialize lists for the layout signature of the real state (Coq vm_compute)."""
import json
import os
import time

from harness import common
from harness import c07
from harness.common import zlist, zlit

PID = "C14"
HEADER = ("From Precond Require Import Base.PyLib C07.Layout C14.Model.\nOpen Scope Z_scope.\n")
PROPS = ["Properties/C14.v"]
WORKER = "harness.impl.c14_worker"
DT_CODE = dict(float32=0, float64=1, bfloat16=2, int8=3, int16=4, int32=5, int64=6, bool=7)

L = c07.L
TREE_A = {"k": "dict", "keys": ["a", "b", "c"], "ch": [L(3, 4), L(5), L()]}
TREE_B = {"k": "dict", "keys": ["a", "b"], "ch": [L(8, 6), L(2, 3, 2)]}
TREE_C = {"k": "dict", "keys": ["a", "b"], "ch": [L(4, 2), {"k": "tuple", "ch": [L(6), L(2, 2)]}]}
TREE_S = {"k": "dict", "keys": ["a"], "ch": [L(3, 4)]}


def bf16(tree):
  return c07.with_dtype(tree, "bfloat16")


def base_configs():
  """(name, opt, cfg, tree)"""
  fd = {"block_size": 8, "compression_rank": 2, "frequent_directions": True,
        "reuse_preconditioner": True}
  return [
      ("ds-full", "ds", {"block_size": 4, "preconditioning_compute_steps": 2, "graft_type": 3,
                         "start_preconditioning_step": 2}, TREE_A),
      ("ds-full-adagrad-wd", "ds", {"block_size": 2, "graft_type": 2, "weight_decay": 0.01,
                                    "moving_average_for_momentum": True, "statistics_compute_steps": 2,
                                    "preconditioning_compute_steps": 2}, TREE_C),
      ("ds-pmap", "ds", {"block_size": 4, "mode": "pmap"}, TREE_A),
      ("ds-int16-quantized-pmap", "ds", {"block_size": 4, "mode": "pmap",
                                         "best_effort_memory_usage_reduction": True,
                                         "preconditioning_compute_steps": 2}, TREE_A),
      ("ds-compressed", "ds", {"block_size": 8, "compression_rank": 2, "start_preconditioning_step": 2},
       TREE_B),
      ("ds-compressed-neg", "ds", {"block_size": 8, "compression_rank": -1, "eigh": True}, TREE_B),
      ("ds-fd-reuse", "ds", dict(fd), TREE_B),
      ("ds-fd-reuse-avg-reset", "ds", dict(fd, average_grad=True, reset_preconditioner=True, beta2=0.5,
                                           skip_preconditioning_rank_lt=0), TREE_B),
      ("ds-fd-avg-skipped-param", "ds", dict(fd, average_grad=True), TREE_A),
      ("ds-sharded", "ds", {"block_size": 4, "mode": "sharded", "num_devices_for_pjit": 1}, TREE_A),
      ("ds-lr-schedule", "ds", {"block_size": 4, "lr_callable": True,
                                "decay_preconditioning_compute_steps": True,
                                "end_preconditioning_compute_steps": 4,
                                "preconditioning_compute_steps": 2}, TREE_C),
      # bfloat16 parameters (the state mixes parameter-dtype, float32 and int8/int16 leaves)
      ("ds-full-bf16", "ds", {"block_size": 4, "graft_type": 3, "preconditioning_compute_steps": 2,
                              "param_dtype": "bfloat16"}, bf16(TREE_A)),
      ("ds-int16-quantized-pmap-bf16", "ds", {"block_size": 4, "mode": "pmap",
                                              "best_effort_memory_usage_reduction": True,
                                              "param_dtype": "bfloat16"}, bf16(TREE_A)),
      ("sm3-bf16", "sm3", {"param_dtype": "bfloat16"}, bf16(TREE_C)),
      ("tf-shampoo-bf16", "tf", {"second_order": {"shampoo": {"block_size": 2}, "merge_dims": 4},
                                 "graft": {"grafting_type": "rmsprop",
                                           "skip_preconditioning_rank1": False},
                                 "param_dtype": "bfloat16"}, bf16(TREE_A)),
      ("sm3", "sm3", {"weight_decay": 0.01}, TREE_C),
      # schedules in plain Python arithmetic (their value depends on the kind of step count they get)
      ("sm3-pylr", "sm3", {"weight_decay": 0.01, "lr_callable": "python"}, TREE_C),
      ("ds-pylr", "ds", {"block_size": 4, "lr_callable": "python"}, TREE_A),
      ("tf-pylr", "tf", {"second_order": {"shampoo": {"block_size": 2}, "merge_dims": 4},
                         "graft": {"grafting_type": "rmsprop", "skip_preconditioning_rank1": False},
                         "lr_callable": "python"}, TREE_A),
      ("sm3-beta2-1", "sm3", {"beta2": 1.0, "normalize_grads": True, "lr_callable": True}, TREE_B),
      ("tf-shampoo", "tf", {"second_order": {"shampoo": {"block_size": 2, "update_statistics_freq": 2,
                                                         "update_preconditioners_freq": 2},
                                             "merge_dims": 4},
                            "graft": {"grafting_type": "rmsprop", "start_preconditioning_step": 2,
                                      "skip_preconditioning_rank1": False}}, TREE_A),
      ("tf-shampoo-adafactor", "tf", {"second_order": {"shampoo": {"block_size": 3}, "merge_dims": 6},
                                      "graft": {"grafting_type": "adafactor", "min_dim_size_to_factor": 2},
                                      "momentum": {"ema": True, "weight_decay": 0.01},
                                      "lr_callable": True}, TREE_B),
      ("tf-sketchy", "tf", {"second_order": {"second_order_type": "sketchy",
                                             "sketchy": {"rank": 2, "update_freq": 2}},
                            "graft": {"grafting_type": "sgd", "skip_preconditioning_rank1": False}},
       TREE_A),
      ("tf-sketchy-ekfac-ggt", "tf", {"second_order": {"second_order_type": "sketchy",
                                                       "sketchy": {"rank": 3, "ekfac_svd": True,
                                                                   "add_ggt": True}},
                                      "graft": {"grafting_type": "none"}}, TREE_B),
  ]


def gen_cases(ctx):
  quick = ctx.tier == "quick"
  rng = ctx.rng.fork()
  cases = []
  T = 6 if quick else 10
  for name, opt, cfg, tree in base_configs():
    cases.append(dict(name=name, opt=opt, cfg=cfg, tree=tree, T=T, exec="jit", emit_blob=True))
  # eager mode (Python code of update runs every step): small trees, fewer crash points
  eager = [c for c in base_configs() if c[0] in (
      "ds-full", "ds-compressed", "ds-fd-reuse", "sm3", "tf-shampoo", "tf-sketchy", "ds-full-bf16",
      "sm3-bf16", "sm3-pylr", "ds-pylr", "tf-pylr") or not quick]
  for name, opt, cfg, tree in eager:
    if cfg.get("mode") in ("pmap",):
      continue
    small = TREE_S if opt == "ds" and "compression_rank" not in cfg else tree
    small = c07.with_dtype(small, cfg.get("param_dtype", "float32"))
    Te = 4 if quick else 6
    cases.append(dict(name=name + "/eager", opt=opt, cfg=cfg, tree=small, T=Te, exec="eager",
                      crash_points=[0, 1, 2, Te] if quick else None, interleave=not quick))
  if not quick:
    # random Distributed Shampoo configurations from the C07 generator which the C07 model of
    # TODAY's code (defect flags of the open C07 findings) predicts to run (the others die in update;
    # C07 reports those)
    rows, _ = c07.gen_ds(ctx, 900, 0)
    cand = []
    for why, row, tr in rows:
      cfg, x64 = c07.row_to_case(row)
      if why != "pairwise" or x64 or not c07.tree_leaves(tr) or tr["k"] == "leaf":
        continue
      cand.append((cfg, tr))
    cand = cand[:400]
    hdr = ("From Coq Require Import QArith.\nFrom Precond Require Import Base.PyLib C07.Layout "
           "C07.Model C07.ModelTF C07.Check.\nOpen Scope Z_scope.\n")
    open7 = common.load_known_findings("C07")
    bugs = c07.coq_bugs(set(fl for fl in c07.BUG_FLAGS if c07.finding_for_flag(open7, fl) is not None))
    terms = ["code (obind (ds_init %s %s %s) (fun l => obind (ds_update %s %s %s l) (fun l2 => "
             "if layout_eqb l l2 then Ok l else Internal [0])))" % (
        bugs, c07.coq_dscfg(cfg), c07.coq_layout(c07.tree_sig(tr)),
        bugs, c07.coq_dscfg(cfg), c07.coq_layout(c07.tree_sig(tr))) for cfg, tr in cand]
    vals = ctx.coq_eval("select", hdr, terms, per_shard=30)
    nrand = 0
    for (cfg, tr), v in zip(cand, vals):
      if v.replace(" ", "") != "(0,[])" or nrand >= 48:
        continue
      nrand += 1
      cases.append(dict(name="ds-random-%d" % len(cases), opt="ds", cfg=cfg, tree=tr, tree_b=tr, T=6,
                        exec="jit", crash_points=[0, 1, 3, 6]))
  for i, c in enumerate(cases):
    c["id"] = i
    c["seed"] = rng.next() % 100000
  return cases


def run_workers(cases, key="cases"):
  import concurrent.futures as cf

  def one(c):
    try:
      return common.run_worker(WORKER, dict(cases=[c]), devices=2, timeout=3000)["results"][0]
    except Exception as e:  # pylint: disable=broad-except
      return dict(id=c["id"], why=[dict(kind="exception", msg="worker crashed: %s" % str(e)[-400:])],
                  checks=[], secs=0)
  with cf.ThreadPoolExecutor(max_workers=common.NPROC) as ex:
    return list(ex.map(one, cases))


def flax_terms(r):
  """Coq term: the model's serialize on the real state's layout lists exactly flax's leaves."""
  state = c07.coq_layout(r["final_sig"])
  emitted = "[" + "; ".join(zlist([DT_CODE.get(d, 9)] + s) for _, s, d in r["flax_leaves"]) + "]"
  return "flax_agrees %s %s" % (state, emitted)


def matches_known(c, w, findings):
  for f in findings:
    if f.get("status") != "open":
      continue
    m = f.get("match", {})
    if m.get("kind_any") and w["kind"] not in m["kind_any"]:
      continue
    pred = m.get("pred")
    if pred and not eval(pred, {}, dict(cfg=c["cfg"], opt=c["opt"], case=c, w=w)):  # pylint: disable=eval-used
      continue
    return f
  return None


def run(ctx):
  ctx.cov["rule"] = (
      "optimizers {Distributed Shampoo full / pmap / int16-quantized pmap / compressed (+/- rank) / "
      "FD+reuse (+average_grad, reset) / sharded / scheduled, SM3, Tearfree Shampoo and Sketchy with "
      "sgd/rmsprop/adafactor/none grafting} x every crash point k = 0..T x {jit/pmap, eager, new "
      "process (k = T/2)}; thorough adds random accepted Distributed Shampoo configurations from the "
      "C07 generator.  A case is one (configuration, tree, execution mode); it is non-trivial when at "
      "least one update ran after a restore.")
  ctx.assumptions += [
      "Coq 8.16.1 kernel + vm_compute",
      "flax.serialization / msgpack are oracles: observed per run (restored state == serialized state "
      "bitwise; emitted leaves == model's serialize)",
      "a freshly constructed optimizer with equal hyper-parameters has the same init state layout "
      "(checked: from_bytes needs it) -- the theorem's template hypothesis",
      "bitwise reproducibility of XLA:CPU + LAPACK for one program on equal inputs (single-threaded "
      "Eigen/OpenBLAS, fixed flags): holds except for rare alignment-dependent LAPACK differences, so "
      "a bitwise difference is reported only if it reproduces in two re-executions (a hidden-state "
      "defect is deterministic); unreproducible ones are counted in the evidence"]
  ctx.proofs(PROPS, dirs=["C07"])
  findings = common.load_known_findings(PID)
  cases = gen_cases(ctx)
  corpus_dir = os.path.join(common.VERIF, "corpus", PID)
  if os.path.isdir(corpus_dir):
    for fn in sorted(os.listdir(corpus_dir)):
      if fn.endswith(".json"):
        rec = json.load(open(os.path.join(corpus_dir, fn)))
        c = dict(rec["input"])
        c["id"] = len(cases)
        c["name"] = "corpus:" + fn
        cases.append(c)
  ctx.log("%d cases" % len(cases))
  t0 = time.time()
  results = run_workers(cases)
  ctx.log("resume runs done in %.0fs" % (time.time() - t0))
  # cross-process continuation
  cross = []
  for c, r in zip(cases, results):
    if r.get("blob"):
      cc = {k: v for k, v in c.items() if k not in ("emit_blob",)}
      cc.update(resume=True, blob=r["blob"], blob_k=r["blob_k"], tail_digests=r["tail_digests"])
      cross.append(cc)
  cres = {r["id"]: r for r in run_workers(cross)} if cross else {}
  ctx.log("cross-process resumes done (%d)" % len(cross))
  # A hidden-state defect is deterministic: it shows on every execution.  LAPACK-backed kernels
  # (svd/qr/eigh through scipy's OpenBLAS) are, rarely (observed ~1 in several hundred runs on a
  # loaded machine), not bitwise reproducible between executions of the SAME program on the SAME
  # inputs (alignment dependent code paths).  Bitwise failures are therefore re-executed twice and
  # only reported when they reproduce both times; the others are counted as unreproducible.
  BITWISE = ("nondeterministic", "resume-differs", "resume-differs-cross-process", "interleave")
  flaky = {}
  suspects = []
  for c, r in zip(cases, results):
    kinds = set(w["kind"] for w in list(r.get("why", [])) + list(cres.get(c["id"], {}).get("why", []))
                if w["kind"] in BITWISE)
    if kinds:
      suspects.append((c, kinds))
  if suspects:
    ctx.log("re-executing %d case(s) with bitwise differences to confirm" % len(suspects))
    confirmed = {c["id"]: set(k) for c, k in suspects}
    for _ in range(2):
      again = run_workers([c for c, _ in suspects])
      cross2 = []
      for (c, _), r in zip(suspects, again):
        if r.get("blob"):
          cc = {k: v for k, v in c.items() if k not in ("emit_blob",)}
          cc.update(resume=True, blob=r["blob"], blob_k=r["blob_k"], tail_digests=r["tail_digests"])
          cross2.append(cc)
      cres2 = {r["id"]: r for r in run_workers(cross2)} if cross2 else {}
      for (c, _), r in zip(suspects, again):
        seen = set(w["kind"] for w in list(r.get("why", [])) + list(cres2.get(c["id"], {}).get("why", [])))
        confirmed[c["id"]] &= seen
    for c, kinds in suspects:
      flaky[c["id"]] = kinds - confirmed[c["id"]]
      for k in sorted(flaky[c["id"]]):
        ctx.count("unreproducible-bitwise-difference=" + k)
        ctx.notes.append("%s: a '%s' difference did not reproduce in 2 re-executions (not reported)" % (
            c["name"], k))
  # model vs flax: emitted leaves
  idx = [i for i, r in enumerate(results) if r.get("final_sig") and r.get("flax_leaves") is not None]
  vals = ctx.coq_eval("flax", HEADER, [flax_terms(results[i]) for i in idx], per_shard=4)
  flax_ok = {i: v == "true" for i, v in zip(idx, vals)}
  reported = set()
  scanned = sorted(set(x for r in results for x in r.get("mutable_seen", [])))
  ctx.cov["mutable_python_objects_scanned"] = scanned[:60]
  for i, (c, r) in enumerate(zip(cases, results)):
    why = list(r.get("why", []))
    if c["id"] in cres:
      why += cres[c["id"]].get("why", [])
      r["checks"] = r.get("checks", []) + cres[c["id"]].get("checks", [])
    key = json.dumps([c["opt"], c["cfg"], c["tree"], c.get("exec")], sort_keys=True)
    ctx.case(key, nontrivial=any(x.startswith("resume") for x in r.get("checks", [])),
             sample=dict(name=c["name"], checks=r.get("checks"), secs=r.get("secs"),
                         serialized_leaves=len(r.get("flax_leaves", []))) if i % 5 == 0 else None)
    ctx.count("opt=" + c["opt"])
    ctx.count("exec=" + c.get("exec", "jit"))
    ctx.count("mode=" + c["cfg"].get("mode", "plain"))
    ctx.count("T=%d" % c["T"])
    for ch in r.get("checks", []):
      ctx.count("check=" + ch.split("@")[0])
    if r.get("mutable_changed"):
      ctx.count("mutable-python-state-changed")
      ctx.notes.append("%s: mutable Python objects changed while updating: %s" % (
          c["name"], r["mutable_changed"][:5]))
    if flax_ok.get(i) is False:
      why.append(dict(kind="model-vs-flax", msg="the leaves flax serializes are not the model's "
                      "serialize of the state's layout"))
    for w in why:
      if w["kind"] in flaky.get(c["id"], ()):
        continue
      ctx.count("failure=" + w["kind"])
      f = matches_known(c, w, findings)
      if f is not None:
        if f["id"] not in reported:
          reported.add(f["id"])
          ctx.known("%s %s [witness: %s]" % (f["id"], f["title"], c["name"]))
        continue
      sigk = (c["name"].split("/")[0], w["kind"])
      if sigk in reported:
        continue
      reported.add(sigk)
      kind = "correspondence-broken" if w["kind"] == "model-vs-flax" else "impl-violates"
      ctx.violation(kind, dict(
          input={k: v for k, v in c.items() if k in ("opt", "cfg", "tree", "T", "seed", "exec",
                                                     "crash_points", "interleave", "name")},
          expected="bitwise identical continuation after to_bytes -> fresh optimizer -> from_bytes",
          actual=w, mutable_python_state_changed=r.get("mutable_changed"),
          theorem_or_check="C14 resume oracle (harness/impl/c14_worker.py); theorem "
          "c14_resume_identical needs a pure step with invariant static skeleton"),
          no_input=(kind == "correspondence-broken"))
  ctx.flush_proof_failures()


def replay(ctx, rec):
  c = rec.get("input")
  if not isinstance(c, dict) or "opt" not in c:
    print("replay: nothing executable in this record (%s)" % rec.get("theorem_or_check"))
    return 1
  c = dict(c)
  c["id"] = 0
  c["emit_blob"] = True
  ctx.proofs(PROPS, dirs=["C07"])
  r = run_workers([c])[0]
  why = list(r.get("why", []))
  if r.get("blob"):
    cc = dict(c, resume=True, blob=r["blob"], blob_k=r["blob_k"], tail_digests=r["tail_digests"])
    why += run_workers([cc])[0].get("why", [])
  print(json.dumps(dict(checks=r.get("checks"), why=why, mutable_changed=r.get("mutable_changed")),
                   indent=1)[:3000])
  print("REPLAY %s" % ("reproduces" if why else "does not reproduce"))
  return 1 if why else 0
