"""Implementation-side driver for C04 (refresh cadence and warm-up).

A payload holds `groups`.  A group fixes an optimizer family, a statistics interval s, a
preconditioner interval p (fixed, or scheduled from a learning-rate schedule), a gradient history
(seed) and a list of start steps; the worker runs the public API (`opt.init` / `opt.update`) for T
steps once per start step (plus the reference starts 0 and INF) and reports, per run and per step,
only bitwise facts:

  bits[t] = [count advanced by exactly one (every count leaf),
             some statistics leaf changed, some preconditioner leaf changed,
             some diagnostics leaf changed (DS only; copy of the preconditioner bit otherwise),
             statistics depend on the step's gradient (same state, other gradient),
             preconditioners depend on the step's gradient]
  all_or_none[t] = for statistics / preconditioners: every principal leaf changed, or none
  dep_stored[t]  = the update changes when the preconditioners STORED in the incoming state are
                   perturbed (sharded lag / warm-up / refresh-uses-new-roots)
  upd[t]         = sha1 of the update leaves (compared across start steps by the driver)
and, for the INF run, the distance of every update to an independent numpy float32 implementation
of the grafting optimizer alone (momentum included).
"""
import fractions
import hashlib
import traceback

import numpy as np

from harness import common

INF = 10 ** 6


def _flat(tree):
  import jax
  flat, _ = jax.tree_util.tree_flatten_with_path(tree)
  return [(jax.tree_util.keystr(p), np.asarray(v)) for p, v in flat]


def _classify(kind, path):
  """-> 'count' | 'stats' | 'precond' | 'metrics' | 'aux' (aux: secondary leaf of a class that may
  legitimately stay constant) | None"""
  if path.endswith("count") or path.endswith(".count"):
    return "count"
  if kind in ("ds", "ds_sharded"):
    if "training_metrics" in path:
      return "metrics"
    if kind == "ds":
      if ".statistics" in path:
        return "stats"
      if ".preconditioners" in path:
        return "precond"
    else:
      if "global_stats.statistics" in path or path.endswith(".statistics"):
        return "stats"
      if "global_stats.preconditioners" in path or path.endswith(".preconditioners"):
        return "precond"
    return None
  if kind == "tf_shampoo":
    if ".stats[" in path:
      return "stats"
    if ".roots[" in path:
      return "precond"
    return None
  if kind == "tf_sketchy":
    if path.endswith(".eigvecs") or path.endswith(".eigvals"):
      return "stats"
    if path.endswith(".inv_eigvals"):
      return "precond"
    if path.endswith(".tail"):
      return "stats_aux"
    if path.endswith(".inv_tail"):
      return "precond_aux"
    return None
  return None


def _lr_fn(spec):
  import jax.numpy as jnp
  if spec is None:
    return None
  kind, lr0 = spec["kind"], spec["lr0"]
  if kind == "linear":      # lr0 * (1 - t / K), K a power of two: every float operation is exact
    K = spec["K"]
    return lambda t: jnp.asarray(lr0, jnp.float32) * (
        1.0 - jnp.asarray(t, jnp.float32) / jnp.asarray(K, jnp.float32))
  if kind == "stair":       # halves at the given steps
    b = spec["bounds"]
    def f(t):
      t = jnp.asarray(t, jnp.int32)
      k = sum((t >= x).astype(jnp.float32) for x in b)
      return jnp.asarray(lr0, jnp.float32) * jnp.exp2(-k)
    return f
  if kind == "levels":      # lr0 * 2^e from the given steps on: may RISE above lr(0) (warm-up)
    lv = spec["levels"]
    def g(t):
      t = jnp.asarray(t, jnp.int32)
      e = sum((t >= x).astype(jnp.float32) * float(d) for x, d in lv)
      return jnp.asarray(lr0, jnp.float32) * jnp.exp2(e)
    return g
  raise ValueError(kind)


def build(group, start):
  """-> (opt, init_fn, update_fn, context-manager or None)"""
  import jax
  kind = group["opt"]
  lrspec = group.get("lr")
  lr = _lr_fn(lrspec) if lrspec else group.get("lr_const", 0.125)
  if kind in ("ds", "ds_sharded"):
    from precondition import distributed_shampoo as ds
    kw = dict(group.get("kw", {}))
    if "graft_type" in kw:
      kw["graft_type"] = getattr(ds.GraftingType, kw["graft_type"])
    if group.get("sched"):
      kw.update(decay_preconditioning_compute_steps=True,
                end_preconditioning_compute_steps=group["sched"]["end"])
    if kind == "ds_sharded":
      from jax.sharding import PartitionSpec as P
      kw.update(shard_optimizer_states=True, num_devices_for_pjit=group.get("D", 1),
                statistics_partition_spec=P("x", None, None),
                preconditioner_partition_spec=P("x", None, None))
    opt = ds.distributed_shampoo(lr, group.get("block_size", 8),
                                 statistics_compute_steps=group["s"],
                                 preconditioning_compute_steps=group["p"],
                                 start_preconditioning_step=start, **kw)
    if kind == "ds":
      return opt.init, jax.jit(opt.update)
    fns = opt.init(None)
    return fns.init_fn, opt.update
  from precondition.tearfree import optimizer as tfo, grafting, second_order, shampoo, sketchy, momentum
  gkw = group.get("kw", {})
  gtype = getattr(grafting.GraftingType, gkw.get("graft_type", "RMSPROP"))
  gopt = grafting.Options(grafting_type=gtype,
                          second_moment_decay=(0.0 if gtype == grafting.GraftingType.SGD else gkw.get("graft_decay", 0.99)),
                          start_preconditioning_step=start, skip_preconditioning_rank1=False,
                          epsilon=gkw.get("graft_eps", 1e-10))
  if kind == "tf_shampoo":
    so = second_order.Options(
        merge_dims=2, second_order_type=second_order.SecondOrderType.SHAMPOO,
        shampoo_options=shampoo.Options(block_size=group.get("block_size", 8),
                                        update_preconditioners_freq=group["p"],
                                        update_statistics_freq=group["s"]))
  else:
    so = second_order.Options(
        merge_dims=2, second_order_type=second_order.SecondOrderType.SKETCHY, shampoo_options=None,
        sketchy_options=sketchy.Options(rank=gkw.get("rank", 2), update_freq=group["s"]))
  mo = momentum.Options(momentum_decay=gkw.get("momentum", 0.9), nesterov=gkw.get("nesterov", True),
                        ema=gkw.get("ema", False))
  opt = tfo.tearfree(lr, tfo.TearfreeOptions(grafting_options=gopt, second_order_options=so,
                                             momentum_options=mo))
  return opt.init, jax.jit(opt.update)


def _perturb(kind, state):
  """Same state with every stored preconditioner leaf multiplied by a non-uniform pattern."""
  import jax
  import jax.numpy as jnp

  def f(path, x):
    cls = _classify(kind, jax.tree_util.keystr(path))
    if cls in ("precond", "precond_aux") and hasattr(x, "dtype") and jnp.issubdtype(x.dtype, jnp.floating):
      n = int(np.prod(x.shape)) if x.shape else 1
      pat = ((np.arange(n) * 7) % 5).astype(np.float32).reshape(x.shape) * 0.125 + 0.75
      return x * jnp.asarray(pat)
    return x
  return jax.tree_util.tree_map_with_path(f, state)


def _digest(tree):
  h = hashlib.sha1()
  for p, a in _flat(tree):
    h.update(p.encode()); h.update(str(a.dtype).encode()); h.update(repr(a.shape).encode())
    h.update(a.tobytes())
  return h.hexdigest()


def _changed(kind, a, b, nrows=None):
  """Per class: (#leaves changed, #leaves) between two states."""
  out = {}
  for (p1, x), (p2, y) in zip(_flat(a), _flat(b)):
    cls = _classify(kind, p1)
    if cls is None:
      continue
    if kind == "ds_sharded" and cls in ("stats", "precond") and nrows is not None:
      x, y = x[:nrows], y[:nrows]
    ch = (p1 != p2) or x.shape != y.shape or x.dtype != y.dtype or x.tobytes() != y.tobytes()
    c = out.setdefault(cls, [0, 0])
    c[0] += int(ch)
    c[1] += 1
  return out


def _count_ok(kind, a, b):
  ok, n = True, 0
  for (p1, x), (p2, y) in zip(_flat(a), _flat(b)):
    if _classify(kind, p1) == "count":
      n += 1
      if int(y) != int(x) + 1 or y.dtype != x.dtype:
        ok = False
  return ok and n > 0


# ---------------- independent float32 implementation of the grafting optimizers ----------------
def graft_reference(group, grads, lrs):
  """numpy float32; returns list over steps of dict name -> update."""
  f32 = np.float32
  kind = group["opt"]
  kw = group.get("kw", {})
  names = sorted(grads[0])
  out = []
  if kind in ("ds", "ds_sharded"):
    gt = kw.get("graft_type", "SGD")
    beta1, beta2 = f32(kw.get("beta1", 0.9)), f32(kw.get("beta2", 0.999))
    w2 = f32(1.0 - kw.get("beta2", 0.999))   # python double arithmetic, then float32 (as the code does)
    nest = kw.get("nesterov", True)
    dstat = {n: np.zeros_like(grads[0][n]) for n in names}
    mom = {n: np.zeros_like(grads[0][n]) for n in names}
    for t, g in enumerate(grads):
      res = {}
      for n in names:
        x = g[n].astype(f32)
        if gt == "SGD":
          gu = x
        elif gt == "ADAGRAD":
          dstat[n] = dstat[n] + x * x
          gu = x / (np.sqrt(dstat[n]) + f32(1e-10))
        elif gt == "RMSPROP":
          dstat[n] = beta2 * dstat[n] + w2 * (x * x)
          gu = x / (np.sqrt(dstat[n]) + f32(1e-10))
        else:
          raise ValueError(gt)
        mom[n] = mom[n] * beta1 + gu
        nm = (gu + beta1 * mom[n]) if nest else mom[n]
        res[n] = (f32(-1.0) * f32(lrs[t])) * nm
      out.append(res)
    return out
  gt = kw.get("graft_type", "RMSPROP")
  d = f32(kw.get("graft_decay", 0.99))
  omd = f32(1 - kw.get("graft_decay", 0.99))
  eps = f32(kw.get("graft_eps", 1e-10))
  mdec = f32(kw.get("momentum", 0.9))
  nest = kw.get("nesterov", True)
  acc = {n: np.zeros_like(grads[0][n]) for n in names}
  tr = {n: np.zeros_like(grads[0][n]) for n in names}
  for t, g in enumerate(grads):
    res = {}
    for n in names:
      x = g[n].astype(f32)
      if gt == "SGD":
        gu = x
      else:
        acc[n] = (x * x) * omd + d * acc[n]
        gu = x * (f32(1.0) / np.sqrt(acc[n] + eps))
      if float(mdec) != 0.0:
        if kw.get("ema", False):
          gu = gu * f32(1 - kw.get("momentum", 0.9))
        tr[n] = gu + mdec * tr[n]
        gu = (gu + mdec * tr[n]) if nest else tr[n]
      res[n] = gu * f32(-1.0 * lrs[t])
    out.append(res)
  return out


def run_group(group):
  import contextlib
  import jax
  import jax.numpy as jnp
  kind = group["opt"]
  T = group.get("T", 12)
  rng = common.SplitMix64(group["seed"])
  shapes = {("p%d" % i): tuple(s) for i, s in enumerate(group["shapes"])}

  def tree():
    return {k: np.array([rng.normal() for _ in range(int(np.prod(s)))], dtype=np.float32).reshape(s)
            for k, s in shapes.items()}
  params = jax.tree.map(jnp.asarray, tree())
  G = [tree() for _ in range(T)]
  G2 = [tree() for _ in range(T)]
  if group.get("spike"):
    # one huge but finite gradient (its square overflows float32) on a chosen step: on a non-statistics
    # step the statistics must stay bit-identical whatever the gradient is
    t_sp = group["spike"]["t"]
    G[t_sp] = {k: (v * np.float32(group["spike"]["scale"])).astype(np.float32) for k, v in G[t_sp].items()}
  res = dict(runs={}, T=T)
  # schedule values, straight from the implementation
  lrspec = group.get("lr")
  lr_fn = _lr_fn(lrspec) if lrspec else None
  if lr_fn is not None:
    lrs = [float(lr_fn(t)) for t in range(T)]
  else:
    lrs = [group.get("lr_const", 0.125)] * T
  res["lrs"] = [[str(fractions.Fraction(x).numerator), str(fractions.Fraction(x).denominator)]
                for x in lrs]
  if group.get("sched"):
    from precondition import distributed_shampoo as ds
    res["sched_vals"] = [float(ds.preconditioning_compute_steps_schedule(
        lr_fn, group["p"], group["sched"]["end"], t)) for t in range(T)]
    res["sched_vals_traced"] = [float(jax.jit(lambda t: ds.preconditioning_compute_steps_schedule(
        lr_fn, group["p"], group["sched"]["end"], t))(jnp.asarray(t, jnp.int32))) for t in range(T)]
  starts = list(group["starts"])
  for ref in group.get("refs", [0, INF]):
    if ref not in starts:
      starts.append(ref)
  full = set(group.get("full_bits_for", group["starts"]))
  cm = contextlib.nullcontext()
  if kind == "ds_sharded":
    from jax.sharding import Mesh
    cm = Mesh(np.array(jax.devices()[:group.get("D", 1)]), ("x",))
  for start in starts:
    run = dict(start=start)
    try:
      with cm:
        init, upd = build(group, start)
        st = init(params)
        nrows = None
        if kind == "ds_sharded":
          locs = jax.tree.leaves(st.stats.local_stats, is_leaf=lambda x: hasattr(x, "index_start"))
          nrows = sum(len(l.sizes) for l in locs)
        bits, aon, dep_stored, upds, errs, partial = [], [], [], [], [], []
        allupd = []
        for t in range(T):
          g = jax.tree.map(jnp.asarray, G[t])
          u, st2 = upd(g, st, params)
          upds.append(_digest(u))
          allupd.append({k: np.asarray(v) for k, v in u.items()})
          if start in full:
            ch = _changed(kind, st, st2, nrows)
            u3, st3 = upd(jax.tree.map(jnp.asarray, G2[t]), st, params)
            dp = _changed(kind, st2, st3, nrows)
            s_any = ch.get("stats", [0, 0])[0] + ch.get("stats_aux", [0, 0])[0] > 0
            p_any = ch.get("precond", [0, 0])[0] + ch.get("precond_aux", [0, 0])[0] > 0
            m_any = ch["metrics"][0] > 0 if "metrics" in ch else p_any
            bits.append([_count_ok(kind, st, st2), s_any, p_any, m_any,
                         dp.get("stats", [0, 0])[0] + dp.get("stats_aux", [0, 0])[0] > 0,
                         dp.get("precond", [0, 0])[0] + dp.get("precond_aux", [0, 0])[0] > 0])
            aon.append([ch["stats"][0] in (0, ch["stats"][1]), ch["precond"][0] in (0, ch["precond"][1])])
            partial.append([ch["stats"], ch["precond"]])
            u4, _ = upd(g, _perturb(kind, st), params)
            dep_stored.append(_digest(u4) != upds[-1])
            if "metrics" in ch:
              errs.append(float(max(np.max(a) for p_, a in _flat(st2) if "inverse_pth_root_errors" in p_)))
          st = st2
        run.update(bits=bits, all_or_none=aon, dep_stored=dep_stored, upd=upds, max_root_error=errs,
                   partial=partial)
        run["finite"] = bool(all(np.all(np.isfinite(a)) for d in allupd for a in d.values()))
        if start == INF and group.get("graft_reference", True):
          ref = graft_reference(group, G, lrs)
          worst, nbit = 0.0, 0
          for t in range(T):
            for k in allupd[t]:
              a, b = allupd[t][k].astype(np.float64), ref[t][k].astype(np.float64)
              scale = float(np.max(np.abs(b)))
              e = float(np.max(np.abs(a - b))) / scale if scale > 0 else float(np.max(np.abs(a - b)))
              worst = max(worst, e)
              nbit += int(allupd[t][k].tobytes() == ref[t][k].astype(np.float32).tobytes())
          run["graft_ref_maxrel"] = worst
          run["graft_ref_bitwise"] = [nbit, T * len(shapes)]
    except Exception as e:  # pylint: disable=broad-except
      run["exc"] = "%s: %s" % (type(e).__name__, str(e)[:300])
      run["trace"] = traceback.format_exc()[-2000:]
    res["runs"][str(start)] = run
  return res


def run(payload):
  import time
  out = []
  for g in payload["groups"]:
    t0 = time.time()
    try:
      r = run_group(g)
    except Exception as e:  # pylint: disable=broad-except
      r = dict(exc="%s: %s" % (type(e).__name__, str(e)[:300]), trace=traceback.format_exc()[-2000:],
               runs={})
    r["group"] = g
    r["secs"] = round(time.time() - t0, 2)
    out.append(r)
  return dict(results=out)


if __name__ == "__main__":
  common.worker_main(run)
