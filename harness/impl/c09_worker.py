"""Implementation-side driver for C09: runs the three frequent-directions implementations step by
step over generated gradient histories, capturing every SVD/QR call, and returns per step the exact
float values of inputs, captured oracle answers and resulting sketch state."""
import math

import numpy as np

from harness import common


def fl(x):
  return [float(v) for v in np.asarray(x, dtype=np.float64).ravel()]


def mat(x):
  x = np.asarray(x, dtype=np.float64)
  return [[float(v) for v in row] for row in x]


def gen_history(rng, d, m, T, kind, k, pad_start):
  """List of T float arrays (d, m), values exactly representable in float32."""
  hist = []
  basis = None
  for t in range(T):
    if kind == "zero_mixed" and rng.below(3) == 0:
      g = np.zeros((d, m))
    elif kind in ("int", "zero_mixed"):
      g = np.array([[rng.rint(-4, 4) for _ in range(m)] for _ in range(d)], dtype=np.float64)
    elif kind == "lowrank":
      if basis is None:
        basis = np.array([[rng.rint(-3, 3) for _ in range(k)] for _ in range(d)], dtype=np.float64)
      co = np.array([[rng.rint(-3, 3) for _ in range(m)] for _ in range(k)], dtype=np.float64)
      g = basis @ co
    elif kind == "scale":
      sc = 10.0 ** rng.rint(-3, 3)
      g = np.array([[rng.normal() * sc for _ in range(m)] for _ in range(d)])
    elif kind in ("small", "large"):
      # whole history at one extreme magnitude (property quantifier: scales 1e-6 .. 1e6)
      if basis is None:
        basis = 10.0 ** (rng.rint(-6, -4) if kind == "small" else rng.rint(4, 6))
      g = np.array([[rng.normal() * basis for _ in range(m)] for _ in range(d)])
    else:
      g = np.array([[rng.normal() for _ in range(m)] for _ in range(d)])
    g = np.asarray(g, dtype=np.float32).astype(np.float64)
    if pad_start is not None:
      g[pad_start:, :] = 0.0
    hist.append(g)
  return hist


def as_tensor(g, case):
  """The (d, m) history matrix as the gradient tensor the routine sees: the sketched axis `axis` of a
  rank-3 tensor of shape (.., d, ..) whose other axes have sizes tdims (m = tdims[0] * tdims[1]); the
  matrix is its unfolding along that axis, so G G^T is unchanged.  Rank-2 (axis 0) when absent."""
  if not case.get("tdims"):
    return g, 0
  m1, m2 = case["tdims"]
  t = np.moveaxis(np.asarray(g).reshape(g.shape[0], m1, m2), 0, case["axis"])
  return t, case["axis"]


class Capture:

  def __init__(self):
    self.svd = []
    self.qr = []

  def install(self, jnp):
    self.jnp = jnp
    self.o_svd, self.o_qr = jnp.linalg.svd, jnp.linalg.qr

    def svd(x, *a, **kw):
      out = self.o_svd(x, *a, **kw)
      self.svd.append((np.asarray(x), [np.asarray(o) for o in out]))
      return out

    def qr(x, *a, **kw):
      out = self.o_qr(x, *a, **kw)
      self.qr.append((np.asarray(x), np.asarray(out) if not isinstance(out, tuple)
                      else [np.asarray(o) for o in out]))
      return out

    jnp.linalg.svd, jnp.linalg.qr = svd, qr

  def uninstall(self):
    self.jnp.linalg.svd, self.jnp.linalg.qr = self.o_svd, self.o_qr

  def reset(self):
    self.svd, self.qr = [], []


def run_ds(case, cap):
  import jax.numpy as jnp
  from precondition import distributed_shampoo as ds
  rng = common.SplitMix64(case["seed"])
  d, k, T, b, m = case["d"], case["k"], case["T"], case["b"], case["m"]
  ps = case["pad_start"]
  p = case["p"]
  hist = gen_history(rng, d, m, T, case["hist"], k, ps)
  prev = jnp.zeros((d, k + 2), jnp.float32)
  steps = []
  tol = 1e-6
  for g in hist:
    cap.reset()
    gt, axis = as_tensor(g, case)
    gj = jnp.asarray(gt, jnp.float32)
    fac = ds.frequent_directions_update(None, gj, axis, 0.0, 1.0)
    V0, l0, _, _, t0, _ = ds._fd_low_rank_unpack(prev, k)
    l0n = np.asarray(l0, np.float64)
    if case["ridge"] > 0:
      eps_r = float(np.float32(case["ridge"]) * np.maximum(np.float32(l0n[0]), np.float32(tol)))
    else:
      eps_r = 0.0
    val, _ = ds._fd_update_root(fac, p, rank=k, ridge_epsilon=case["ridge"], error_tolerance=tol,
                                relative_matrix_epsilon=True, decay=b,
                                padding_start=d if ps is None else ps, prev=prev)
    if len(cap.svd) != 1:
      raise RuntimeError("expected exactly one svd call, got %d" % len(cap.svd))
    F, (u, s, _) = cap.svd[0]
    V, l, inv, const, tail, hz = ds._fd_low_rank_unpack(val, k)
    Vn = np.asarray(V, np.float64)
    steps.append(dict(G=mat(g), fac=mat(np.asarray(fac)), F=mat(F),
                      U=[fl(u[:, j]) for j in range(u.shape[1])], s=fl(s),
                      V=[fl(Vn[:, j]) for j in range(k)], l=fl(l), t=float(tail), inv=fl(inv),
                      const=float(const), epsR=eps_r, eps_abs=0.0, eps_rel=0.0,
                      has_zeros=bool(hz), t_prev=float(t0)))
    prev = val
  return dict(steps=steps, p=p, b=float(np.float32(b)) if b != 1 else 1.0, k=k, n=d)


def run_tf(case, cap):
  import jax
  import jax.numpy as jnp
  from precondition.tearfree import sketchy
  rng = common.SplitMix64(case["seed"])
  d, k, T, b, m = case["d"], case["k"], case["T"], case["b"], case["m"]
  hist = gen_history(rng, d, m, T, case["hist"], k, None)
  opts = sketchy.Options(epsilon=case["eps"], rank=k, relative_epsilon=case["rel_eps"],
                         second_moment_decay=b, update_freq=1)
  tx = sketchy.apply(opts)
  shape0, axis = as_tensor(np.zeros((d, m)), case)
  st = tx.init({"w": jnp.zeros(shape0.shape, jnp.float32)})
  ax = st.sketches["w"].axes[axis]
  steps = []
  for g in hist:
    cap.reset()
    t0 = float(ax.tail)
    ax = sketchy._update_axis(opts, axis, (jax.tree_util.DictKey("w"),),
                              jnp.asarray(as_tensor(g, case)[0], jnp.float32), ax)
    if len(cap.svd) != 1:
      raise RuntimeError("expected exactly one svd call, got %d" % len(cap.svd))
    F, (u, s) = cap.svd[0][0], cap.svd[0][1][:2]
    Vn = np.asarray(ax.eigvecs, np.float64)
    kk = Vn.shape[1]
    steps.append(dict(G=mat(g), F=mat(F), U=[fl(u[:, j]) for j in range(u.shape[1])], s=fl(s),
                      V=[fl(Vn[:, j]) for j in range(kk)], sqrt_l=fl(ax.eigvals),
                      t=float(ax.tail), inv=fl(ax.inv_eigvals), const=float(ax.inv_tail),
                      epsR=0.0, eps_abs=0.0 if case["rel_eps"] else float(np.float32(case["eps"])),
                      eps_rel=float(np.float32(case["eps"])) if case["rel_eps"] else 0.0,
                      t_prev=t0))
  b32 = float(np.float32(b)) if b != 1 else 1.0
  # sketchy inverts to the power -1 / (2 * ndim) of the gradient tensor
  return dict(steps=steps, p=2 * (3 if case.get("tdims") else 2), b=b32, k=min(k, d), n=d)


def run_oco(case, cap):
  import jax.numpy as jnp
  from precondition.oco import algorithms as alg
  rng = common.SplitMix64(case["seed"])
  d, ell, T = case["d"], case["ell"], case["T"]
  hist = gen_history(rng, d, 1, T, case["hist"], max(1, ell - 1), None)
  algo = {"S_ADA": alg.Algorithm.S_ADA, "ADA_FD": alg.Algorithm.ADA_FD,
          "RFD_SON": alg.Algorithm.RFD_SON, "FD_SON": alg.Algorithm.FD_SON}[case["algo"]]
  hp = alg.HParams(delta=case["delta"], lr=case["lr"], sketch_size=ell, algorithm=algo)
  init, update = alg.generate_init_update((d,), hp)
  st = init()
  steps = []
  t_acc = 0.0
  for g in hist:
    cap.reset()
    alpha0 = float(st["alpha"])
    st = update(dict(st), jnp.asarray(0.0), jnp.asarray(g[:, 0], jnp.float64))
    if len(cap.svd) != 1:
      raise RuntimeError("expected exactly one svd call, got %d" % len(cap.svd))
    Bm, (_, s, vt) = cap.svd[0]
    P = np.asarray(st["P"], np.float64)
    e = np.asarray(st["e"], np.float64)
    gin = np.asarray(Bm)[-1]
    t_prev = t_acc
    t_acc = t_acc + float(s[-1]) ** 2
    steps.append(dict(G=mat(gin.reshape(d, 1)), F=mat(np.asarray(Bm).T),
                      U=[fl(vt[j]) for j in range(vt.shape[0])], s=fl(s),
                      V=[fl(P[j]) for j in range(ell)], sqrt_l=fl(e), t=t_acc, inv=[], const=0.0,
                      epsR=0.0, eps_abs=0.0, eps_rel=0.0, t_prev=t_prev,
                      alpha=float(st["alpha"]), alpha_prev=alpha0, last_e=float(e[-1]),
                      finite=bool(np.all(np.isfinite(np.asarray(st["w"]))))))
  return dict(steps=steps, p=2, b=1.0, k=ell - 1, n=d)


def run_ds_opt(case):
  """Distributed Shampoo with frequent_directions through the public API (roots run under vmap, so
  no SVD capture): after every update the packed preconditioners are unpacked."""
  import jax.numpy as jnp
  from precondition import distributed_shampoo as ds
  rng = common.SplitMix64(case["seed"])
  d0, d1, k, T, b = case["d0"], case["d1"], case["k"], case["T"], case["b"]
  hist = gen_history(rng, d0, d1, T, case["hist"], k, None)
  opt = ds.distributed_shampoo(
      0.125, block_size=64, beta2=b, matrix_epsilon=case["ridge"], compression_rank=k,
      frequent_directions=True, reuse_preconditioner=True, batch_axis_name=None,
      graft_type=ds.GraftingType.SGD, best_effort_shape_interpretation=False,
      start_preconditioning_step=1, preconditioning_compute_steps=1, statistics_compute_steps=1,
      exponent_override=case.get("expo", 0), inverse_failure_threshold=0.1)
  params = {"w": jnp.ones((d0, d1), jnp.float32)}
  state = opt.init(params)
  per_axis = [[], []]
  prev_l0 = [0.0, 0.0]
  p_exp = case.get("expo", 0) or 4
  for g in hist:
    gj = jnp.asarray(g, jnp.float32)
    upd, state = opt.update({"w": gj}, state, params)
    pcs = state.stats["w"].preconditioners
    if len(pcs) != 2:
      raise RuntimeError("expected 2 preconditioners, got %d" % len(pcs))
    for ax in (0, 1):
      d = (d0, d1)[ax]
      V, l, inv, const, tail, hz = ds._fd_low_rank_unpack(pcs[ax], k)
      Vn = np.asarray(V, np.float64)
      G = np.moveaxis(np.asarray(g, np.float64), ax, 0).reshape(d, -1)
      eps_r = float(np.float32(case["ridge"]) * np.maximum(np.float32(prev_l0[ax]), np.float32(1e-6))) \
          if case["ridge"] > 0 else 0.0
      per_axis[ax].append(dict(G=mat(G), F=[], U=[], s=[], V=[fl(Vn[:, j]) for j in range(k)], l=fl(l),
                               t=float(tail), inv=fl(inv), const=float(const), epsR=eps_r,
                               eps_abs=0.0, eps_rel=0.0, finite_update=bool(np.all(np.isfinite(np.asarray(upd["w"]))))))
      prev_l0[ax] = float(np.asarray(l)[0])
  b32 = float(np.float32(b)) if b != 1 else 1.0
  return dict(axes=[dict(steps=per_axis[0], n=d0), dict(steps=per_axis[1], n=d1)], p=p_exp, b=b32, k=k)


def run(payload):
  import jax
  import jax.numpy as jnp
  cap = Capture()
  cap.install(jnp)
  out = []
  try:
    for case in payload["cases"]:
      try:
        with jax.disable_jit():
          if case["impl"] == "ds_opt":
            r = None
          elif case["impl"] == "ds":
            r = run_ds(case, cap)
          elif case["impl"] == "tf":
            r = run_tf(case, cap)
          else:
            r = run_oco(case, cap)
        if case["impl"] == "ds_opt":
          cap.uninstall()           # the optimizer traces its roots under jit/vmap: no capture
          try:
            r = run_ds_opt(case)    # jit enabled: the optimizer's own code path
          finally:
            cap.install(jnp)
        r["case"] = case
        out.append(r)
      except Exception as e:  # pylint: disable=broad-except
        import traceback
        out.append(dict(case=case, exc="%s: %s" % (type(e).__name__, str(e)[:300]),
                        trace=traceback.format_exc()[-1500:]))
  finally:
    cap.uninstall()
  return dict(results=out)


if __name__ == "__main__":
  common.worker_main(run)
