"""Implementation-side probe of the OCO training driver (precondition/oco/train.py): the compiled
fori_loop / scan over observation chunks must feed the rows in order, i.e. its checkpoints equal the
bound update function (validated against the closed forms by the main C16 check) applied row by row."""
import numpy as np

from harness import common


def run(payload):
  import jax
  import jax.numpy as jnp
  from precondition.oco import algorithms as alg
  from precondition.oco import train
  out = []
  for case in payload["cases"]:
    r = dict(id=case["id"])
    try:
      rng = common.SplitMix64(case["seed"])
      d, n = case["d"], case["n"]
      x = jnp.asarray(np.array([[rng.normal() for _ in range(d)] for _ in range(n)], np.float64))
      y = jnp.zeros((n,), jnp.float64)
      hp = alg.HParams(delta=case["delta"], lr=case["lr"], sketch_size=case["ell"],
                       algorithm=getattr(alg.Algorithm, case["algo"]))
      init, update = alg.generate_init_update((d,), hp)
      loss = lambda w, row, yy: jnp.dot(w, row) + 0.0 * yy       # linear loss: gradient = the row
      lag = jax.value_and_grad(loss)
      st = init()
      st["loss"] = jnp.array(0.0, dtype=jnp.float64)
      st["n"] = 0
      obs = np.round(np.linspace(0, n, num=case["num_obs"], endpoint=True)).astype(int)
      hist = train._compiled_run_dataset(x, y, st, jnp.asarray(obs), lag, update, None)
      ref = init()
      refs = {0: np.asarray(ref["w"], np.float64)}
      for i in range(n):
        f, g = lag(ref["w"], x[i], y[i])
        ref = update(dict(ref), f, g)
        refs[i + 1] = np.asarray(ref["w"], np.float64)
      worst = 0.0
      first = None
      for j, o in enumerate(obs):
        got = np.asarray(hist["w"][j], np.float64)
        want = refs[int(o)]
        rel = float(np.abs(got - want).max() / max(np.abs(want).max(), 1e-30))
        if rel > worst:
          worst = rel
          first = first or dict(checkpoint=j, rows=int(o), got=got.tolist(), want=want.tolist())
      r.update(worst=worst, first=first, n_hist=[int(v) for v in np.asarray(hist["n"])], obs=[int(o) for o in obs])
    except Exception as e:  # pylint: disable=broad-except
      import traceback
      r["exc"] = "%s: %s" % (type(e).__name__, str(e)[:300])
      r["trace"] = traceback.format_exc()[-1200:]
    out.append(r)
  return dict(results=out)


if __name__ == "__main__":
  common.worker_main(run)
