"""Implementation-side driver for C07 (and shared by C14): builds one of precondition's optimizers
through its public constructor from a JSON configuration, runs init and T updates on a JSON
described parameter tree and reports

  * either the exception (type, message, and whether it was raised by a `raise` statement in
    precondition's own source -- an explicit rejection -- or anywhere else -- an internal error),
  * or canonical layout signatures (tree structure incl. static pytree metadata, leaf shapes,
    leaf dtypes) of: the initial state, the state after every update, every update tree, and in
    sharded mode the declared shapes/dtypes tree and the partition-spec tree.

The property oracle (updates look like params; state layout is a fixed point; three sharded
views agree) is evaluated here, directly on the implementation's outputs; the comparison with
the Coq layout calculus happens in harness/c07.py."""
import linecache
import os
import traceback

import numpy as np

from harness import common

REPO_PKG = os.path.join(os.path.realpath(common.REPO), "precondition") + os.sep


# ----------------------------------------------------------------------------------------------
# canonical signatures
# ----------------------------------------------------------------------------------------------
def _static(x):
  """static (aux) pytree metadata -> JSON: int | bool | 'dt:<name>' | [ints] | 'obj:<repr>'."""
  if isinstance(x, (bool, np.bool_)):
    return bool(x)
  if isinstance(x, (int, np.integer)):
    return int(x)
  if isinstance(x, (list, tuple)):
    if all(isinstance(y, (int, np.integer)) and not isinstance(y, (bool, np.bool_)) for y in x):
      return [int(y) for y in x]
    return ["obj:" + repr(x)]
  if isinstance(x, str):
    return "obj:str:" + x
  try:
    return "dt:" + np.dtype(x).name
  except Exception:  # pylint: disable=broad-except
    return "obj:" + type(x).__name__ + ":" + repr(x)[:60]


def _is_arr(x):
  import jax
  return isinstance(x, (jax.Array, np.ndarray, np.generic, jax.ShapeDtypeStruct))


def sig(x, strip_leading=None):
  """["L", shape, dtype] | ["P", pytype] | ["N", kind, statics, children]."""
  from jax.tree_util import default_registry
  if x is None:
    return ["N", "None", [], []]
  if _is_arr(x):
    shp = [int(s) for s in x.shape]
    if strip_leading is not None:
      if not shp or shp[0] != strip_leading:
        return ["L", ["bad-leading-axis"] + shp, np.dtype(x.dtype).name]
      shp = shp[1:]
    return ["L", shp, np.dtype(x.dtype).name]
  if isinstance(x, (bool, int, float, complex, str)):
    return ["P", type(x).__name__]
  r = default_registry.flatten_one_level(x)
  if r is None:
    return ["P", "opaque:" + type(x).__name__]
  ch, aux = r
  name = _kind_name(x)
  if isinstance(x, dict):
    st = [[_key_index(k) for k in sorted(x.keys())]]
    ch = [x[k] for k in sorted(x.keys())]
  elif aux is None or isinstance(aux, type):
    st = []
  elif isinstance(aux, tuple):
    st = [_static(a) for a in aux]
  else:
    st = [_static(aux)]
  return ["N", name, st, [sig(c, strip_leading) for c in ch]]


def _kind_name(x):
  name = type(x).__name__
  if type(x).__module__ == "precondition.sm3" and name == "ParameterStats":
    name = "sm3." + name
  return name


def _key_index(k):
  """dict keys of the generated parameter trees are 'a'..'z' (index 0..25) or 'k<n>'."""
  k = str(k)
  if len(k) == 1 and "a" <= k <= "z":
    return ord(k) - ord("a")
  if k.startswith("k") and k[1:].isdigit():
    return 100 + int(k[1:])
  # foreign dict (e.g. tearfree pspec dicts): stable small code
  return {"count": 1000, "direction": 1001, "norm": 1002, "blocks": 1003, "stats": 1004,
          "roots": 1005, "sketches": 1006, "axes": 1007}.get(k, 9999)


def decl_sig(x):
  """Signature of the tree returned by sharded_init_shape_and_dtype_fn: a `[shape, dtype]` pair
  stands for an array leaf; everything else as in sig()."""
  if isinstance(x, list) and len(x) == 2 and isinstance(x[0], (list, tuple)) and not _is_arr(x[1]) \
      and all(isinstance(d, (int, np.integer)) for d in x[0]) and _is_dtype(x[1]):
    return ["L", [int(d) for d in x[0]], np.dtype(x[1]).name]
  from jax.tree_util import default_registry
  if x is None:
    return ["N", "None", [], []]
  if _is_arr(x):
    return ["L", ["array-in-declaration"] + [int(s) for s in x.shape], np.dtype(x.dtype).name]
  if isinstance(x, (bool, int, float, complex, str)) or _is_dtype(x):
    return ["P", type(x).__name__]
  r = default_registry.flatten_one_level(x)
  if r is None:
    return ["P", "opaque:" + type(x).__name__]
  ch, aux = r
  name = _kind_name(x)
  if isinstance(x, dict):
    st = [[_key_index(k) for k in sorted(x.keys())]]
    ch = [x[k] for k in sorted(x.keys())]
  elif aux is None or isinstance(aux, type):
    st = []
  elif isinstance(aux, tuple):
    st = [_static(a) for a in aux]
  else:
    st = [_static(aux)]
  return ["N", name, st, [decl_sig(c) for c in ch]]


def _is_dtype(d):
  if isinstance(d, (list, tuple, dict)) or d is None:
    return False
  try:
    np.dtype(d)
    return True
  except Exception:  # pylint: disable=broad-except
    return False


def pspec_sig(x):
  """Signature of the partition-spec tree: a PartitionSpec stands for an array leaf
  (["S", len])."""
  import jax
  from jax.tree_util import default_registry
  if isinstance(x, jax.sharding.PartitionSpec):
    return ["S", len(x)]
  if x is None:
    return ["N", "None", [], []]
  if isinstance(x, (bool, int, float, complex, str)) or _is_dtype(x):
    return ["P", type(x).__name__]
  r = default_registry.flatten_one_level(x)
  if r is None:
    return ["P", "opaque:" + type(x).__name__]
  ch, aux = r
  name = _kind_name(x)
  if isinstance(x, dict):
    st = [[_key_index(k) for k in sorted(x.keys())]]
    ch = [x[k] for k in sorted(x.keys())]
  elif aux is None or isinstance(aux, type):
    st = []
  elif isinstance(aux, tuple):
    st = [_static(a) for a in aux]
  else:
    st = [_static(aux)]
  return ["N", name, st, [pspec_sig(c) for c in ch]]


def views_agree(state_sig, decl, psp, path="state"):
  """Property oracle for the sharded three-views clause, on signatures.  Returns list of
  human-readable disagreements (empty = agree)."""
  bad = []
  if state_sig[0] == "L":
    if decl[0] != "L":
      bad.append("%s: array leaf in state, %s in declared shapes" % (path, decl[:2]))
    elif decl[1] != state_sig[1] or decl[2] != state_sig[2]:
      bad.append("%s: state %s %s, declared %s %s" % (path, state_sig[1], state_sig[2],
                                                     decl[1], decl[2]))
    if psp[0] != "S":
      bad.append("%s: array leaf in state, %s in partition specs" % (path, psp[:2]))
    elif psp[1] > len(state_sig[1]):
      bad.append("%s: partition spec of length %d for rank %d" % (path, psp[1], len(state_sig[1])))
    return bad
  if state_sig[0] == "P":
    if decl != state_sig or psp != state_sig:
      bad.append("%s: python leaf mismatch" % path)
    return bad
  for other, nm in ((decl, "declared shapes"), (psp, "partition specs")):
    if other[0] != "N" or other[1] != state_sig[1] or other[2] != state_sig[2] or \
        len(other[3]) != len(state_sig[3]):
      bad.append("%s: node %s%s/%d in state, %s in %s" % (
          path, state_sig[1], state_sig[2], len(state_sig[3]),
          (other[1:3] + [len(other[3])]) if other[0] == "N" else other[:2], nm))
      return bad
  for i, (a, b, c) in enumerate(zip(state_sig[3], decl[3], psp[3])):
    bad += views_agree(a, b, c, "%s.%s[%d]" % (path, state_sig[1], i))
  return bad


# ----------------------------------------------------------------------------------------------
# inputs
# ----------------------------------------------------------------------------------------------
def build_tree(spec, rng, dtype="float32", scale=1.0):
  """spec: {"k": "leaf", "shape": [...]} | {"k": "dict", "keys": [...], "ch": [...]} |
  {"k": "list"|"tuple", "ch": [...]} | {"k": "none"}."""
  import jax.numpy as jnp
  k = spec["k"]
  if k == "leaf":
    n = int(np.prod(spec["shape"])) if spec["shape"] else 1
    vals = np.array([(rng.below(15) - 7) * scale for _ in range(n)], dtype=np.float64)
    return jnp.asarray(vals.reshape(spec["shape"]), dtype=spec.get("dtype", dtype))
  if k == "dict":
    return {key: build_tree(c, rng, dtype, scale) for key, c in zip(spec["keys"], spec["ch"])}
  if k == "list":
    return [build_tree(c, rng, dtype, scale) for c in spec["ch"]]
  if k == "tuple":
    return tuple(build_tree(c, rng, dtype, scale) for c in spec["ch"])
  if k == "none":
    return None
  raise ValueError(k)


def classify_exception(e):
  """-> dict(type, msg, own_raise, where)."""
  tb = traceback.extract_tb(e.__traceback__)
  last = tb[-1] if tb else None
  own_raise = False
  where = ""
  if last is not None:
    fn = os.path.realpath(last.filename)
    where = "%s:%d" % (os.path.relpath(fn, os.path.realpath(common.REPO)) if fn.startswith(
        os.path.realpath(common.REPO)) else fn, last.lineno)
    if fn.startswith(REPO_PKG):
      line = linecache.getline(fn, last.lineno).strip()
      own_raise = line.startswith("raise ")
      where += " `" + line[:70] + "`"
  # innermost frame that belongs to precondition (for reporting)
  inner = ""
  for f in reversed(tb):
    fr = os.path.realpath(f.filename)
    if fr.startswith(REPO_PKG):
      inner = "%s:%d %s" % (os.path.relpath(fr, os.path.realpath(common.REPO)), f.lineno, f.name)
      break
  return dict(type=type(e).__name__, msg=str(e)[:240], own_raise=bool(own_raise), where=where,
              inner=inner)


# ----------------------------------------------------------------------------------------------
# optimizer construction
# ----------------------------------------------------------------------------------------------
def _schedule(step):
  """float32-valued learning-rate schedule (a schedule returning a default-dtype float would,
  under x64, promote the updates to float64 -- the schedule's doing, not the optimizer's)."""
  import jax.numpy as jnp
  return jnp.asarray(0.25, jnp.float32) / (jnp.asarray(1.0, jnp.float32) + jnp.asarray(step).astype(jnp.float32))


def _py_schedule(step):
  """A schedule written in plain Python arithmetic: what it computes depends on the type of `step` it is
  handed (a traced / jax integer gives float32 arithmetic, a NumPy integer from a restored checkpoint
  float64 rounded once), so the optimizer must hand it the same kind of count in both runs."""
  return 0.05 * (1 + step / 10) ** -0.5


def _lr_of(cfg):
  v = cfg.get("lr_callable")
  return _py_schedule if v == "python" else (_schedule if v else 0.25)


DS_DEFAULTS = dict(
    block_size=4, beta1=0.9, beta2=0.999, weight_decay=0.0, start_preconditioning_step=1,
    preconditioning_compute_steps=1, statistics_compute_steps=1,
    best_effort_shape_interpretation=True, graft_type=1, nesterov=True, exponent_override=0,
    best_effort_memory_usage_reduction=False, moving_average_for_momentum=False,
    skip_preconditioning_dim_size_gt=4096, clip_by_scaled_gradient_norm=None,
    relative_matrix_epsilon=True, merge_small_dims_block_size=4096, lobpcg_topk_precondition=0,
    lobpcg_max_iter=0, precondtioner_type=1, generate_fd_metrics=False, compression_rank=0,
    frequent_directions=False, reset_preconditioner=False, average_grad=False,
    skip_preconditioning_rank_lt=1, decoupled_learning_rate=True, decoupled_weight_decay=False,
    generate_training_metrics=True, reuse_preconditioner=False, eigh=False,
    decay_preconditioning_compute_steps=False, end_preconditioning_compute_steps=None)


def make_ds(cfg):
  """cfg: DS keyword arguments (enums as ints) + mode in plain|pmap|sharded + lr_callable +
  num_devices_for_pjit."""
  from precondition import distributed_shampoo as ds
  kw = dict(DS_DEFAULTS)
  for k, v in cfg.items():
    if k in kw:
      kw[k] = v
  kw["graft_type"] = ds.GraftingType(kw["graft_type"])
  kw["precondtioner_type"] = ds.PreconditionerType(kw["precondtioner_type"])
  lr = _lr_of(cfg)
  mode = cfg.get("mode", "plain")
  if mode == "pmap" or cfg.get("batch_axis_name"):
    kw["batch_axis_name"] = "batch"
  if mode == "sharded":
    import jax
    kw["shard_optimizer_states"] = True
    kw["num_devices_for_pjit"] = cfg.get("num_devices_for_pjit", 1)
    if cfg.get("pspecs"):
      kw["statistics_partition_spec"] = jax.sharding.PartitionSpec("x", None, None)
      kw["preconditioner_partition_spec"] = jax.sharding.PartitionSpec("x", None, None)
  return ds.distributed_shampoo(lr, **kw)


def make_sm3(cfg):
  from precondition import sm3
  kw = {k: cfg[k] for k in ("beta1", "beta2", "diagonal_epsilon", "weight_decay",
                            "normalize_grads") if k in cfg}
  lr = _lr_of(cfg)
  return sm3.sm3(lr, **kw)


def tf_options(cfg):
  from precondition.tearfree import grafting, momentum, optimizer, second_order, shampoo, sketchy
  g = dict(cfg.get("graft", {}))
  if "grafting_type" in g:
    g["grafting_type"] = grafting.GraftingType(g["grafting_type"])
  so = dict(cfg.get("second_order", {}))
  sh = so.pop("shampoo", None)
  sk = so.pop("sketchy", None)
  sot = so.pop("second_order_type", "shampoo")
  so_opts = second_order.Options(
      second_order_type=second_order.SecondOrderType(sot),
      shampoo_options=shampoo.Options(**sh) if sh is not None else (
          shampoo.Options() if sot == "shampoo" and not cfg.get("no_shampoo_options") else None),
      sketchy_options=sketchy.Options(**sk) if sk is not None else None, **so)
  return optimizer.TearfreeOptions(
      grafting_options=grafting.Options(**g), second_order_options=so_opts,
      momentum_options=momentum.Options(**cfg.get("momentum", {})))


def make_tf(cfg):
  from precondition.tearfree import optimizer
  lr = _lr_of(cfg)
  return optimizer.tearfree(lr, tf_options(cfg))


def make_tfso(cfg):
  """second-order transform alone, WITHOUT the reshaper: shampoo.apply / sketchy.apply on the raw
  parameter shapes (this is where _init's unit-dim / indivisible / >2-large-dims rejections are
  reachable)."""
  from precondition.tearfree import shampoo, sketchy
  if cfg.get("second_order_type", "shampoo") == "shampoo":
    return shampoo.apply(shampoo.Options(**cfg.get("shampoo", {})))
  return sketchy.apply(sketchy.Options(**cfg.get("sketchy", {})))


MAKERS = dict(ds=make_ds, sm3=make_sm3, tf=make_tf, tfso=make_tfso)


# ----------------------------------------------------------------------------------------------
# one case
# ----------------------------------------------------------------------------------------------
class Driver:
  """Uniform init/update interface over plain, pmap and sharded execution."""

  def __init__(self, case):
    import jax
    import jax.numpy as jnp
    self.case = case
    self.optk = case["opt"]
    self.cfg = case["cfg"]
    self.mode = self.cfg.get("mode", "plain") if self.optk == "ds" else "plain"
    self.D = int(self.cfg.get("devices", 2)) if self.mode == "pmap" else 1
    self.mesh = None
    self.jit = bool(case.get("jit", True))
    self.opt = MAKERS[self.optk](self.cfg)
    self.jax, self.jnp = jax, jnp
    self._upd = None
    self.declared = None
    self.pspecs = None

  def _rep(self, tree):
    jnp = self.jnp
    return self.jax.tree.map(lambda x: jnp.stack([x] * self.D), tree)

  def init(self, params):
    jax = self.jax
    if self.mode == "sharded":
      n = int(self.cfg.get("num_devices_for_pjit", 1))
      self.mesh = jax.sharding.Mesh(np.array(jax.devices()[:n]).reshape((n,)), ("x",))
      with self.mesh:
        fns = self.opt.init(None)
        state = fns.init_fn(params)
        self._fns = fns
      return state
    state = self.opt.init(params)
    if self.mode == "pmap":
      # jaxlib 0.11 CPU pmap segfaults on zero-size operands (reproducible without precondition:
      # jax.pmap(lambda x: x + 1)(jnp.zeros((2, 0)))); such states are driven through
      # jax.vmap(..., axis_name=...) which gives the collectives the same semantics.
      self.zero_size = any(int(np.prod(l.shape)) == 0 for l in jax.tree.leaves(state)) or \
          not jax.tree.leaves(params)
      state = self._rep(state)
    return state

  def sharded_views(self, params):
    jax = self.jax
    with self.mesh:
      self.declared = self._fns.shape_and_dtype_fn(params)
      pp = jax.tree.map(lambda p: jax.sharding.PartitionSpec(*([None] * p.ndim)), params)
      self.pspecs = self._fns.pspec_fn(params, pp, jax.sharding.PartitionSpec("x", None, None))
    return self.declared, self.pspecs

  def update(self, grads, state, params):
    jax = self.jax
    if self._upd is None:
      if self.mode == "pmap":
        devs = jax.devices()[:self.D]
        assert len(devs) == self.D, "need %d host devices" % self.D
        if getattr(self, "zero_size", False):
          pm = jax.jit(jax.vmap(self.opt.update, axis_name="batch"))
          self.used_vmap = True
        else:
          pm = jax.pmap(self.opt.update, axis_name="batch", devices=devs)
        self._upd = lambda g, s, p: pm(self._rep(g), s, self._rep(p))
      elif self.jit:
        self._upd = jax.jit(self.opt.update)
      else:
        self._upd = self.opt.update
    if self.mesh is not None:
      with self.mesh:
        return self._upd(grads, state, params)
    if not self.jit and self.mode != "pmap":
      with jax.disable_jit():
        return self._upd(grads, state, params)
    return self._upd(grads, state, params)

  def strip(self):
    return self.D if self.mode == "pmap" else None


def run_case(case):
  import jax
  rng = common.SplitMix64(int(case.get("seed", 1)))
  res = dict(id=case.get("id"), status="ok", phase="construct")
  T = int(case.get("T", 3))
  try:
    drv = Driver(case)
    res["phase"] = "init"
    params = build_tree(case["tree"], rng)
    state = drv.init(params)
    st = drv.strip()
    res["init_sig"] = sig(state, st)
    res["params_sig"] = sig(params)
    if drv.mode == "sharded":
      res["phase"] = "sharded_views"
      decl, psp = drv.sharded_views(params)
      res["declared_sig"] = decl_sig(decl)
      res["pspec_sig"] = pspec_sig(psp)
      res["views_disagree"] = views_agree(res["init_sig"], res["declared_sig"], res["pspec_sig"])
    res["state_sigs"] = []
    res["upd_sigs"] = []
    for t in range(T):
      res["phase"] = "update%d" % (t + 1)
      grads = build_tree(case["tree"], rng, scale=0.125)
      upd, state = drv.update(grads, state, params)
      jax.block_until_ready((upd, state))
      res["state_sigs"].append(sig(state, st))
      res["upd_sigs"].append(sig(upd, st))
    res["phase"] = "done"
    if getattr(drv, "used_vmap", False):
      res["used_vmap"] = True
    # property oracle directly on the implementation's outputs
    why = []
    for t, (ss, us) in enumerate(zip(res["state_sigs"], res["upd_sigs"])):
      if us != res["params_sig"]:
        why.append("update %d: update tree differs from params (structure/shape/dtype)" % (t + 1))
      if ss != res["init_sig"]:
        why.append("update %d: state layout differs from the initial state's" % (t + 1))
    if res.get("views_disagree"):
      why.append("sharded views disagree: " + "; ".join(res["views_disagree"][:4]))
    res["oracle_why"] = why
    # keep the result small: equal signatures are not repeated
    res["state_sigs"] = [None if s == res["init_sig"] else s for s in res["state_sigs"]]
    res["upd_sigs"] = [None if s == res["params_sig"] else s for s in res["upd_sigs"]]
  except Exception as e:  # pylint: disable=broad-except
    info = classify_exception(e)
    res.update(info)
    res["status"] = ("reject" if info["own_raise"] and info["type"] in (
        "ValueError", "NotImplementedError") else "internal")
    res["trace"] = traceback.format_exc()[-1800:]
  return res


def run(payload):
  import warnings
  warnings.filterwarnings("ignore")
  import logging
  logging.disable(logging.WARNING)
  try:
    from absl import logging as alog
    alog.set_verbosity(alog.FATAL)
  except Exception:  # pylint: disable=broad-except
    pass
  import contextlib
  import io
  import time
  out = []
  for case in payload["cases"]:
    t0 = time.time()
    buf = io.StringIO()
    with contextlib.redirect_stdout(buf):   # tearfree shampoo prints its einsum formula
      r = run_case(case)
    r["secs"] = round(time.time() - t0, 2)
    out.append(r)
  return dict(results=out)


if __name__ == "__main__":
  common.worker_main(run)
