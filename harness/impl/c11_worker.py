"""Implementation-side driver for C11: runs QuantizedValue.from_float_value / to_float of the
working tree on float32 tensors given as bit patterns and returns raw integers / bit patterns.
No verdicts are computed here (the property oracle works on these raw outputs with exact
fractions in harness/c11.py; the model comparison is done in Coq)."""
import numpy as np

from harness import common


def _bits(a):
  return [int(v) for v in np.asarray(a, dtype=np.float32).view(np.uint32).ravel()]


def run(payload):
  import jax  # noqa: F401
  import jax.numpy as jnp
  from precondition.quantization_utils import QuantizedValue

  dts = {"int8": jnp.int8, "int16": jnp.int16, "bfloat16": jnp.bfloat16, "float32": jnp.float32}
  out = []
  for t in payload["tensors"]:
    r = dict(id=t["id"])
    try:
      x = np.array(t["bits"], dtype=np.uint32).view(np.float32).reshape(t["shape"])
      xj = jnp.asarray(x)
      assert xj.dtype == jnp.float32
      assert _bits(xj) == [int(b) for b in t["bits"]], "input bits changed by device transfer"
      dt = dts[t["dtype"]]
      if t["dtype"] in ("int8", "int16") and t.get("spelling"):
        # the same storage dtype spelled as callers do (an existing array's .dtype, numpy's scalar type):
        # equal to jnp.int8 / jnp.int16 but not the same object (added after a seeded change that picked
        # the bucket count by identity was missed)
        dt = [None, np.dtype(t["dtype"]), getattr(np, t["dtype"]),
              jnp.zeros((1,), dt).dtype][t["spelling"]]
      qv = QuantizedValue.from_float_value(xj, dt, extract_diagonal=bool(t.get("diag")))
      fl = qv.to_float()
      r["shape_field"] = [int(s) for s in qv.shape]
      r["deq_dtype"] = str(fl.dtype)
      r["deq"] = _bits(fl)
      r["deq_shape"] = [int(s) for s in fl.shape]
      if t["dtype"] in ("int8", "int16"):
        r["q_dtype"] = str(qv.quantized.dtype)
        r["q"] = [int(v) for v in np.asarray(qv.quantized).ravel()]
        r["bucket"] = _bits(qv.bucket_size)
        r["bucket_shape"] = [int(s) for s in np.shape(qv.bucket_size)]
        r["diag"] = _bits(qv.diagonal) if t.get("diag") else None
        # re-quantize the de-quantized value (state carried but not updated)
        qv2 = QuantizedValue.from_float_value(fl, dt, extract_diagonal=bool(t.get("diag")))
        r["q2"] = [int(v) for v in np.asarray(qv2.quantized).ravel()]
        r["bucket2"] = _bits(qv2.bucket_size)
        r["deq2"] = _bits(qv2.to_float())
      elif t["dtype"] == "bfloat16":
        r["q_dtype"] = str(qv.quantized.dtype)
        r["q"] = [int(v) << 16 for v in np.asarray(qv.quantized).view(np.uint16).ravel()]
        qv2 = QuantizedValue.from_float_value(fl, dt)
        r["q2"] = [int(v) << 16 for v in np.asarray(qv2.quantized).view(np.uint16).ravel()]
        r["extra_empty"] = (qv.diagonal == [] and qv.bucket_size == [])
      else:
        r["q_dtype"] = str(qv.quantized.dtype)
        r["q"] = _bits(qv.quantized)
        r["extra_empty"] = (qv.diagonal == [] and qv.bucket_size == [])
    except Exception as e:  # pylint: disable=broad-except
      r["exc"] = "%s: %s" % (type(e).__name__, str(e)[:300])
    out.append(r)
  return dict(results=out)


if __name__ == "__main__":
  common.worker_main(run)
