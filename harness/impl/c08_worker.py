"""Implementation-side driver for C08 (block-diagonal semantics).  Public API only:
distributed_shampoo(...).init/update and tearfree.optimizer.tearfree(...).init/update, update op-by-op ("eager" cases) or under jax.jit.

Per case three trees are optimised over the same gradient history:
  A   {"w": W}                          the blocked tensor alone
  B   {"b000": block 0, "b001": ...}    its blocks as separate leaves (flatten order = block order)
  A+  {"w": W, "z0": ..., "z1": ...}    the blocked tensor with companion leaves of arbitrary
                                        shape, scale and value
and per step the gradient, the three updates of w / of the blocks and the complete second-order
state (statistics, preconditioners / roots) are returned as exact floats.  Which state entry
belongs to which block is NOT decided here: the harness hands everything to Coq, which derives the
index arithmetic from C06.Ref and evaluates the comparison tables."""
import contextlib
import io
import itertools
import traceback

import numpy as np

from harness import common


def fl(x):
  return [float(v) if np.isfinite(v) else 0.0 for v in np.asarray(x, dtype=np.float64).ravel()]


def mat(x):
  x = np.asarray(x, dtype=np.float64)
  return [[float(v) if np.isfinite(v) else 0.0 for v in row] for row in x]


def ds_boxes(shape, b):
  """(offset, size) per axis of every block, BlockPartitioner order (harness-side; Coq re-derives
  the same boxes from C06.Ref and compares the block gradients)."""
  per = []
  for d in shape:
    if 0 < b < d:
      n = (d - 1) // b
      per.append([(k * b, min(b, d - k * b)) for k in range(n + 1)])
    else:
      per.append([(0, d)])
  return list(itertools.product(*per))


def tf_boxes(shape, b):
  per = []
  for d in shape:
    if d >= b:
      per.append([(k * b, b) for k in range(d // b)])
    else:
      per.append([(0, d)])
  return list(itertools.product(*per))


def sl(box):
  return tuple(slice(o, o + n) for (o, n) in box)


def gen_hist(rng, case, boxes, dtype):
  shape = case["shape"]
  exps = case["scales"]
  hist = []
  for _ in range(case["T"]):
    if case["hist"] == "int":
      g = np.array([float(rng.rint(-4, 4)) for _ in range(int(np.prod(shape)))]).reshape(shape)
    else:
      g = np.array([rng.normal() for _ in range(int(np.prod(shape)))]).reshape(shape)
    for box, e in zip(boxes, exps):
      g[sl(box)] *= 10.0 ** e
    hist.append(g.astype(dtype))
  comps = []
  for (cs, ce) in case["companions"]:
    comps.append([(np.array([rng.normal() for _ in range(int(np.prod(cs)) if cs else 1)]).reshape(cs)
                   * 10.0 ** ce).astype(dtype) for _ in range(case["T"])])
  return hist, comps


def make_ds(cfg):
  from precondition import distributed_shampoo as ds
  graft = {"none": ds.GraftingType.NONE, "sgd": ds.GraftingType.SGD,
           "adagrad": ds.GraftingType.ADAGRAD, "rmsprop": ds.GraftingType.RMSPROP,
           "rmsprop_normalized": ds.GraftingType.RMSPROP_NORMALIZED}[cfg["graft"]]
  return ds.distributed_shampoo(
      learning_rate=cfg["lr"], block_size=cfg["block"], beta1=cfg["beta1"], beta2=cfg["beta2"],
      matrix_epsilon=cfg["meps"], weight_decay=cfg["wd"],
      start_preconditioning_step=cfg["start"], preconditioning_compute_steps=cfg["pfreq"],
      statistics_compute_steps=cfg["sfreq"], best_effort_shape_interpretation=False,
      graft_type=graft, nesterov=cfg["nesterov"], batch_axis_name=None,
      moving_average_for_momentum=cfg["moving_avg"], relative_matrix_epsilon=cfg["rel_eps"],
      skip_preconditioning_rank_lt=1, eigh=cfg["eigh"], generate_training_metrics=True,
      inverse_failure_threshold=cfg.get("ift", 0.1),
      **(dict(frequent_directions=True, compression_rank=cfg["fd"], reuse_preconditioner=True)
         if cfg.get("fd") else {}))


def make_tf(cfg):
  from precondition.tearfree import grafting, momentum, optimizer, second_order, shampoo
  opts = optimizer.TearfreeOptions(
      grafting_options=grafting.Options(grafting_type=grafting.GraftingType.NONE,
                                        second_moment_decay=0.0, skip_preconditioning_rank1=False),
      second_order_options=second_order.Options(
          merge_dims=2, shampoo_options=shampoo.Options(
              block_size=cfg["block"], update_preconditioners_freq=cfg["pfreq"],
              update_statistics_freq=cfg["sfreq"], second_moment_decay=cfg["beta2"])),
      momentum_options=momentum.Options(ema=cfg["moving_avg"], nesterov=cfg["nesterov"],
                                        momentum_decay=cfg["beta1"], weight_decay=cfg["wd"],
                                        weight_decay_after_momentum=cfg.get("wd_after", True)))
  return optimizer.tearfree(cfg["lr"], opts)


def ds_leaf_state(state, name):
  st = state.stats[name]
  errs, mev = [], []
  if st.statistics:
    errs = [float(v) for v in np.asarray(st.training_metrics.inverse_pth_root_errors, np.float64).ravel()]
    mv = getattr(st.training_metrics, "max_eigen_value", None)
    if mv is not None and np.asarray(mv).size == len(st.statistics):
      mev = [float(v) for v in np.asarray(mv, np.float64).ravel()]
  return dict(stats=[mat(x) for x in st.statistics], pre=[mat(x) for x in st.preconditioners],
              err=[e if np.isfinite(e) else -1.0 for e in errs],
              maxev=[v if np.isfinite(v) else -1.0 for v in mev])


def tf_leaf_state(state, name):
  bl = state[0][1].blocks[name]
  return dict(stats=[[mat(b) for b in np.asarray(ax)] for ax in bl.stats],
              pre=[[mat(b) for b in np.asarray(ax)] for ax in bl.roots])


def comp_name(i):
  """Companion leaf names alternate between sorting before and after the tensor "w" in the flattened
  tree: anything indexed by position in the flat list of statistics (e.g. per-statistic exponents) only
  affects "w" when a companion precedes it (added after a seeded change was missed)."""
  return ("a%d" if i % 2 == 0 else "z%d") % i


def run_case(case):
  import jax
  import jax.numpy as jnp
  cfg = case["cfg"]
  kind = case["kind"]
  dtype = np.float32 if kind == "ds" else np.float64
  rng = common.SplitMix64(case["seed"])
  shape = tuple(case["shape"])
  boxes = ds_boxes(shape, cfg["block"]) if kind == "ds" else tf_boxes(shape, cfg["block"])
  if len(boxes) != len(case["scales"]):
    raise RuntimeError("scales do not match the number of blocks")
  hist, comps = gen_hist(rng, case, boxes, dtype)
  tx = make_ds(cfg) if kind == "ds" else make_tf(cfg)
  leaf_state = ds_leaf_state if kind == "ds" else tf_leaf_state
  w0 = np.array([rng.rint(-8, 8) / 4.0 for _ in range(int(np.prod(shape)))]).reshape(shape).astype(dtype)
  bnames = ["b%03d" % k for k in range(len(boxes))]
  pA = {"w": jnp.asarray(w0)}
  pB = {n: jnp.asarray(w0[sl(bx)]) for n, bx in zip(bnames, boxes)}
  pP = {"w": jnp.asarray(w0)}
  for i, (cs, _) in enumerate(case["companions"]):
    pP[comp_name(i)] = jnp.asarray(np.ones(cs, dtype))
  sA, sB, sP = tx.init(pA), tx.init(pB), tx.init(pP)
  if case.get("eager", True):
    updA = updB = updP = tx.update          # op-by-op: identical primitive sequences per block
  else:
    updA, updB, updP = jax.jit(tx.update), jax.jit(tx.update), jax.jit(tx.update)
  steps = []
  for t in range(case["T"]):
    g = hist[t]
    gA = {"w": jnp.asarray(g)}
    gB = {n: jnp.asarray(g[sl(bx)]) for n, bx in zip(bnames, boxes)}
    gP = {"w": jnp.asarray(g)}
    for i in range(len(comps)):
      gP[comp_name(i)] = jnp.asarray(comps[i][t])
    uA, sA = updA(gA, sA, pA)
    uB, sB = updB(gB, sB, pB)
    uP, sP = updP(gP, sP, pP)
    lam = []
    if kind == "ds":
      # eigenvalue bounds of w's statistics: proposals, verified in Coq by the PSD checker
      for m in sA.stats["w"].statistics:
        ev = np.linalg.eigvalsh(np.asarray(m, dtype=np.float64))
        lmax = float(ev[-1]) * (1 + 1e-3) + 1e-300
        lmin = float(ev[0]) * (1 - 1e-3) - 1e-6 * abs(float(ev[-1]))
        lam.append([float(np.float32(lmin)), float(np.float32(lmax))])
    steps.append(dict(
        lam=lam,
        g=fl(g), gB=[fl(gB[n]) for n in bnames],
        uA=fl(uA["w"]), uB=[fl(uB[n]) for n in bnames], uP=fl(uP["w"]),
        A=leaf_state(sA, "w"), P=leaf_state(sP, "w"), B=[leaf_state(sB, n) for n in bnames],
        finite=bool(np.all(np.isfinite(np.asarray(uA["w"]))) and np.all(np.isfinite(np.asarray(uP["w"])))
                    and all(np.all(np.isfinite(np.asarray(uB[n]))) for n in bnames))))
  return dict(steps=steps, boxes=[[list(p) for p in bx] for bx in boxes], w0=fl(w0))


def run(payload):
  import jax
  out = []
  for case in payload["cases"]:
    try:
      import time
      t0 = time.time()
      with contextlib.redirect_stdout(io.StringIO()):
        r = run_case(case)
      r["case"] = case
      r["elapsed"] = round(time.time() - t0, 2)
      out.append(r)
    except Exception as e:  # pylint: disable=broad-except
      out.append(dict(case=case, exc="%s: %s" % (type(e).__name__, str(e)[:300]),
                      trace=traceback.format_exc()[-2000:]))
  return dict(results=out)


if __name__ == "__main__":
  common.worker_main(run)
