"""Implementation-side driver for C10 (run with JAX_ENABLE_X64=1).

Runs the real _fd_low_rank_pack/_unpack, _low_rank_pack/_unpack, _precond_dim/_should_compress,
Preconditioner._precondition_block and _low_rank_root of /repo and reports
 (a) the raw outputs (exact integers / float64 values) for comparison with the Coq model, and
 (b) the property evaluated directly on the implementation (numpy int64 / float64 oracle).
"""
import math
import traceback

import numpy as np

from harness import common


def _ints(a):
  a = np.asarray(a, dtype=np.float64)
  r = np.rint(a)
  if not np.array_equal(r, a):
    raise ValueError("non-integer value in an integer-valued case")
  return r.astype(np.int64).tolist()


def index_fields(d, r):
  vecs = [[100 + i * r + j for j in range(r)] for i in range(d)]
  defl = [1000 + k for k in range(r)]
  inv = [2000 + k for k in range(r)]
  return vecs, defl, inv, 3001, 3002


def case_pack(ds, jnp, case, res, fail):
  d, cr, hz = case["d"], case["cr"], case["hz"]
  r = abs(cr)
  res["pd"] = int(ds._precond_dim(cr, d))
  res["sc"] = bool(ds._should_compress(cr, d))
  vecs, defl, inv, const, tail = index_fields(d, r)
  f64 = jnp.float64
  try:
    P = ds._fd_low_rank_pack(jnp.array(vecs, f64).reshape(d, r), jnp.array(defl, f64),
                             jnp.array(inv, f64), float(const), float(tail), hz, cr)
  except AssertionError:
    res["rejected"] = True
    if res["sc"]:
      fail("pack raised AssertionError although _should_compress is True")
    return
  res["rejected"] = False
  if not res["sc"]:
    fail("pack accepted a size for which _should_compress is False")
  if tuple(P.shape) != (d, res["pd"]):
    fail("packed shape %s != (d, _precond_dim) = (%d, %d)" % (tuple(P.shape), d, res["pd"]))
  res["packed"] = _ints(P)
  # property on the implementation: unpack(pack(fields)) == fields
  v2, dl2, in2, c2, t2, hz2 = ds._fd_low_rank_unpack(P, cr)
  got = dict(vecs=_ints(v2), defl=_ints(dl2), inv=_ints(in2), const=_ints(c2), tail=_ints(t2),
             hz=bool(hz2))
  want = dict(vecs=vecs, defl=defl, inv=inv, const=const, tail=tail, hz=bool(hz))
  for k in want:
    if got[k] != want[k]:
      fail("unpack(pack(f)).%s = %s != %s" % (k, got[k], want[k]))
  res["unpacked"] = got
  # pack(unpack(P)) == P on the image
  P2 = ds._fd_low_rank_pack(v2, dl2, in2, c2, t2, hz2, cr)
  if _ints(P2) != res["packed"]:
    fail("pack(unpack(P)) != P for P in the image of pack")
  # _low_rank_pack / _low_rank_unpack
  L = ds._low_rank_pack(jnp.array(vecs, f64).reshape(d, r), jnp.array(inv, f64), float(const), cr)
  res["lr_packed"] = _ints(L)
  lv, le, lc, lhz = ds._low_rank_unpack(L, cr)
  res["lr_unpacked"] = dict(vecs=_ints(lv), inv=_ints(le), const=_ints(lc), hz=bool(lhz))
  if res["lr_unpacked"] != dict(vecs=vecs, inv=inv, const=const, hz=False):
    fail("_low_rank_unpack(_low_rank_pack(f)) != f")
  # unpack of an index-valued matrix (every slot distinct, has_zeros slot non-zero)
  A = [[1 + i * (r + 2) + j for j in range(r + 2)] for i in range(d)]
  av, adl, ain, ac, at, ahz = ds._fd_low_rank_unpack(jnp.array(A, f64), cr)
  res["arange"] = A
  res["arange_unpacked"] = dict(vecs=_ints(av), defl=_ints(adl), inv=_ints(ain), const=_ints(ac),
                                tail=_ints(at), hz=bool(ahz))
  # slot layout stated by the property, directly: which cell of A each field came from
  An = np.array(A)
  if res["arange_unpacked"]["vecs"] != An[:, :r].tolist():
    fail("eigvecs are not columns 0..r-1")
  if res["arange_unpacked"]["inv"] != An[:r, r].tolist():
    fail("inverted eigenvalues are not rows 0..r-1 of column -2")
  if res["arange_unpacked"]["defl"] != An[d - r:, r + 1].tolist():
    fail("deflated eigenvalues are not rows d-r..d-1 of column -1")
  if (res["arange_unpacked"]["const"], res["arange_unpacked"]["tail"]) != (A[0][r + 1], A[1][r + 1]):
    fail("const/tail are not rows 0/1 of column -1")


def dense_int(P, d, r):
  P = np.array(P, dtype=np.int64)
  V = P[:, :r]
  e = P[:r, r]
  c = P[0, r + 1]
  skip = bool(P[d - 1, r] != 0)
  if skip:
    return np.eye(d, dtype=np.int64)
  return c * (np.eye(d, dtype=np.int64) - V @ V.T) + V @ np.diag(e) @ V.T


def case_block(ds, jnp, case, res, fail):
  shape, g, pcs, cr = case["shape"], case["g"], case["preconds"], case["cr"]
  n = len(shape)
  f64 = jnp.float64
  gdt = getattr(jnp, case.get("gdtype", "float64"))
  pdt = getattr(jnp, case.get("pdtype", "float64"))
  gj = jnp.array(g, gdt).reshape(shape)
  pre = ds.Preconditioner(jnp.zeros(shape, gdt), 10 ** 6, 1, False,
                          ds.PreconditionerType.ALL, cr)
  should = [p["kind"] != "none" for p in pcs]
  mats = [None if p["kind"] == "none" else jnp.array(p["m"], pdt) for p in pcs]
  out = pre._precondition_block(gj, should, mats)
  if tuple(out.shape) != tuple(shape):
    fail("result shape %s != %s" % (tuple(out.shape), tuple(shape)))
    res["out"] = None
    return
  res["out"] = _ints(np.asarray(out).ravel())
  # implementation-side oracle: dense mode products in int64
  ref = np.array(g, dtype=np.int64).reshape(shape)
  for k, p in enumerate(pcs):
    if p["kind"] == "none":
      continue
    M = np.array(p["m"], dtype=np.int64) if p["kind"] == "full" else dense_int(p["m"], shape[k], abs(cr))
    ref = np.moveaxis(np.tensordot(ref, M, axes=[[k], [0]]), -1, k)
  res["ref"] = ref.ravel().tolist()
  if res["ref"] != res["out"]:
    bad = [i for i, (a, b) in enumerate(zip(res["ref"], res["out"])) if a != b]
    fail("_precondition_block != dense mode products at %d of %d entries (first flat index %d)" %
         (len(bad), len(res["ref"]), bad[0]))


def gen_psd(rng, d, ps, cr, spread, scale=None, null=0):
  """Float64 PSD matrix of size d whose leading ps x ps block has a prescribed spectrum with a
  gap at the cut; rows/cols >= ps carry non-zero garbage (the code must mask it)."""
  m = ps
  r = abs(cr)
  G = np.array([[rng.normal() for _ in range(m)] for _ in range(m)]).reshape(m, m)
  Qm = np.linalg.qr(G)[0] if m else G
  lam = []
  x = 1.0
  for i in range(m):
    lam.append(x)
    x *= (1.25 + 0.5 * rng.unit()) * (spread ** (1.0 / max(m - 1, 1)))
  lam = np.array(lam)  # ascending, consecutive ratio >= 1.25 everywhere (so also at the cut)
  if scale is not None and m:
    lam = lam * (scale / lam[-1])       # top eigenvalue = scale
  if null:
    lam[:min(null, m - 1)] = 0.0        # exactly rank-deficient statistics (Gram of few gradients)
  B = (Qm * lam) @ Qm.T
  B = (B + B.T) / 2
  A = np.zeros((d, d))
  A[:m, :m] = B
  for i in range(d):
    for j in range(d):
      if i >= m or j >= m:
        A[i, j] = 0.5 + rng.unit()
  A = (A + A.T) / 2
  return A


def case_root(ds, jax, jnp, case, res, fail):
  d, cr, ps, p = case["d"], case["cr"], case["ps"], case["p"]
  rel = case["relative"]
  ridge_eps = case["ridge_epsilon"]
  rng = common.SplitMix64(case["seed"])
  r = abs(cr)
  real = d if ps is None else ps
  A = gen_psd(rng, d, real, cr, case["spread"], case.get("scale"), case.get("null", 0))
  cap = dict(eigh=[], power=[], pi=[])
  o_eigh, o_power, o_pi = jnp.linalg.eigh, jnp.power, ds.power_iteration

  def w_eigh(x, *a, **k):
    out = o_eigh(x, *a, **k)
    cap["eigh"].append((np.asarray(x), np.asarray(out[0]), np.asarray(out[1])))
    return out

  def w_power(x, y, *a, **k):
    out = o_power(x, y, *a, **k)
    cap["power"].append((np.asarray(x), np.asarray(y), np.asarray(out)))
    return out

  def w_pi(*a, **k):
    out = o_pi(*a, **k)
    cap["pi"].append(float(out[1]))
    return out

  jnp.linalg.eigh, jnp.power, ds.power_iteration = w_eigh, w_power, w_pi
  try:
    val, metrics = ds._low_rank_root(jnp.array(A, jnp.float64), p, compression_rank=cr,
                                     ridge_epsilon=ridge_eps, error_tolerance=1e-6,
                                     relative_matrix_epsilon=rel, padding_start=ps)
  finally:
    jnp.linalg.eigh, jnp.power, ds.power_iteration = o_eigh, o_power, o_pi
  val = np.asarray(val)
  if val.dtype != np.float64 or val.shape != (d, r + 2):
    fail("result dtype/shape %s %s" % (val.dtype, val.shape))
  if len(cap["eigh"]) != 1 or len(cap["power"]) != 1:
    fail("expected exactly one eigh and one power call, saw %d / %d" %
         (len(cap["eigh"]), len(cap["power"])))
    return
  areg, ev, U = cap["eigh"][0]
  px, py, pout = cap["power"][0]
  max_ev = cap["pi"][0] if rel else 1.0
  ridge = float(np.float64(ridge_eps) * np.maximum(np.float64(max_ev), np.float64(1e-6)))
  res.update(A=A.tolist(), areg=areg.tolist(), ev=ev.tolist(), U=U.tolist(), px=px.tolist(),
             pout=pout.tolist(), alpha=float(py), ridge=ridge, val=val.tolist(),
             error=float(metrics.inverse_pth_root_errors))
  if float(py) != -1.0 / p:
    fail("power exponent %r != -1/p" % float(py))
  # ---- implementation-side oracle (float64 numpy): the property statement itself -------------
  if real == 0:
    if np.any(val != 0):
      fail("all-padding block: packed root is not the zero matrix")
    return
  V, inv, c, hz = ds._low_rank_unpack(jnp.array(val), cr)
  V, inv, c = np.asarray(V), np.asarray(inv), float(c)
  if bool(hz):
    fail("has_zeros set by _low_rank_root")
  if real < d and float(np.abs(V[real:, :]).max()) > 0.0:
    fail("retained directions are not zero on the padding rows (max |V| there = %.3g)"
         % float(np.abs(V[real:, :]).max()))
  if case.get("null"):
    # eigenvalues tie inside the null space, so the retained eigenvectors are not unique: structural
    # clauses only (zero on padding, orthonormal retained directions, finite values)
    if not np.all(np.isfinite(val)):
      fail("non-finite packed root")
    g = V.T @ V
    if float(np.abs(g - np.eye(g.shape[0])).max()) > 1e-8:
      fail("retained directions are not orthonormal (max dev %.3g)" % float(np.abs(g - np.eye(g.shape[0])).max()))
    return
  dense = c * (np.eye(d) - V @ V.T) + (V * inv) @ V.T
  Am = A[:real, :real] + ridge * np.eye(real)
  w, Q = np.linalg.eigh(Am)
  roots = np.maximum(w, ridge) ** (-1.0 / p)
  keep = list(range(real - r, real)) if cr > 0 else list(range(0, r))
  keep = [k for k in keep if 0 <= k < real]
  rest = [k for k in range(real) if k not in keep]
  cref = (roots[rest].sum() / (real - r)) if real - r > 0 else 0.0
  Qp = np.zeros((d, real))
  Qp[:real, :] = Q
  Vk = Qp[:, keep]
  ref = (Vk * roots[keep]) @ Vk.T + cref * (np.eye(d) - Vk @ Vk.T)
  scale = max(float(np.abs(ref).max()), 1e-300)
  err = float(np.abs(dense - ref).max()) / scale
  res["oracle_rel_err"] = err
  gap = case["spread"] ** (1.0 / max(real - 1, 1)) * 1.25
  res["gap_ratio"] = gap
  # eigenvector sensitivity: u * cond-ish / relative gap; float64 u=1.1e-16, generous 1e-9
  if not err <= 1e-9:
    fail("dense(packed root) differs from the reference root-with-mean-tail by %.3e relative" % err)
  if real > 0 and abs(c - cref) > 1e-10 * max(abs(cref), 1e-300):
    fail("const %.17g != mean of the non-retained root values over unpadded dims %.17g" % (c, cref))


def run(payload):
  import jax
  import jax.numpy as jnp
  from precondition import distributed_shampoo as ds
  assert jax.config.jax_enable_x64, "C10 worker must run under x64"
  out = []
  for case in payload["cases"]:
    res = dict(case=case, kind=case["kind"], ok=True, why=[])

    def fail(msg, res=res):
      res["ok"] = False
      res["why"].append(msg)

    try:
      if case["kind"] == "pack":
        case_pack(ds, jnp, case, res, fail)
      elif case["kind"] == "block":
        case_block(ds, jnp, case, res, fail)
      elif case["kind"] == "root":
        case_root(ds, jax, jnp, case, res, fail)
      else:
        raise ValueError(case["kind"])
    except Exception as e:  # pylint: disable=broad-except
      res["ok"] = False
      res["exc"] = "%s: %s" % (type(e).__name__, str(e)[:300])
      res["why"].append("exception " + res["exc"])
      res["trace"] = traceback.format_exc()[-1500:]
    out.append(res)
  return dict(results=out)


if __name__ == "__main__":
  common.worker_main(run)
