"""Implementation-side driver for C15: runs tearfree.optimizer.tearfree(lr, options).init/update
eagerly over generated configurations x parameter trees x gradient histories and returns, per step
and per leaf, the exact float values of parameters, gradients, updates and the complete optimizer
state, plus oracle PROPOSALS that Coq checks before use (numpy eigen-decompositions of the stored
Shampoo statistics, scalar roots, captured SVD calls of Sketchy, optax.adafactor's own output).
It also evaluates lr-linearity / lr-independence of the state BITWISE on the implementation."""
import math
import traceback

import numpy as np

from harness import common


def fl(x):
  return [float(v) for v in np.asarray(x, dtype=np.float64).ravel()]


def mat(x):
  x = np.asarray(x, dtype=np.float64)
  return [[float(v) for v in row] for row in x]


GRAFT = ["none", "sgd", "rmsprop", "adafactor"]


def build_options(cfg):
  from precondition.tearfree import grafting, momentum, optimizer, second_order, shampoo, sketchy
  gt = {"none": grafting.GraftingType.NONE, "sgd": grafting.GraftingType.SGD,
        "rmsprop": grafting.GraftingType.RMSPROP, "adafactor": grafting.GraftingType.ADAFACTOR}[cfg["graft"]]
  gopts = grafting.Options(
      grafting_type=gt, second_moment_decay=cfg["gbeta"],
      start_preconditioning_step=cfg["gstart"], epsilon=cfg["geps"],
      skip_preconditioning_any_dim_gt=cfg["skip_dim_gt"],
      skip_preconditioning_rank1=cfg["skip_rank1"],
      min_dim_size_to_factor=cfg.get("ada_min_dim", 2),
      multiply_by_parameter_scale=cfg.get("ada_param_scale", False),
      clipping_threshold=cfg.get("ada_clip", 1.0))
  if cfg["so"] == "shampoo":
    sopts = second_order.Options(
        merge_dims=cfg["merge"], second_order_type=second_order.SecondOrderType.SHAMPOO,
        shampoo_options=shampoo.Options(
            block_size=cfg["block"], update_preconditioners_freq=cfg["pfreq"],
            update_statistics_freq=cfg["sfreq"], second_moment_decay=cfg["beta2"]))
  else:
    sopts = second_order.Options(
        merge_dims=cfg["merge"], second_order_type=second_order.SecondOrderType.SKETCHY,
        shampoo_options=None,
        sketchy_options=sketchy.Options(
            epsilon=cfg["seps"], rank=cfg["rank"], relative_epsilon=cfg["rel_eps"],
            second_moment_decay=cfg["beta2"], update_freq=cfg["sfreq"]))
  mopts = momentum.Options(ema=cfg["ema"], nesterov=cfg["nesterov"], momentum_decay=cfg["mdecay"],
                           weight_decay=cfg["wd"], weight_decay_after_momentum=cfg["wd_after"])
  return optimizer.TearfreeOptions(grafting_options=gopts, second_order_options=sopts,
                                   momentum_options=mopts)


def lr_of(cfg, scale=1.0):
  import jax.numpy as jnp
  if cfg["lr_sched"] is None:
    return cfg["lr"] * scale
  table = [v * scale for v in cfg["lr_sched"]]
  return lambda count: jnp.asarray(table)[count]


def gen_tree(rng, cfg, case, dtype):
  shapes = case["shapes"]
  params = {}
  for i, s in enumerate(shapes):
    n = int(np.prod(s)) if s else 1
    vals = np.array([rng.rint(-8, 8) / 4.0 for _ in range(n)], dtype=np.float64)
    params["p%d" % i] = vals.reshape(s).astype(dtype)
  return params


def gen_grads(rng, case, dtype):
  kind = case["hist"]
  out = []
  scales = [10.0 ** rng.rint(-3, 3) for _ in case["shapes"]]
  for t in range(case["T"]):
    gt = {}
    for i, s in enumerate(case["shapes"]):
      n = int(np.prod(s)) if s else 1
      if kind == "zero_mixed" and rng.below(3) == 0:
        v = np.zeros(n)
      elif kind in ("int", "zero_mixed"):
        v = np.array([float(rng.rint(-4, 4)) for _ in range(n)])
      elif kind == "scale":
        v = np.array([rng.normal() * scales[i] for _ in range(n)])
      elif kind == "sparse_rows":   # one slice along axis 0 per step (embedding-style): the other
        # rows stay in the null space of the statistics until their turn, so a gradient can lie wholly
        # in the part of a stale covariance that is treated as zero
        v = np.zeros(s if s else (1,))
        if s:
          v[(t + i) % s[0]] = np.array([rng.normal() for _ in range(int(np.prod(s[1:])) if len(s) > 1 else 1)]
                                       ).reshape(s[1:]) if len(s) > 1 else rng.normal()
        else:
          v[0] = rng.normal()
        v = v.ravel()
      elif kind == "blockscale":    # first half of the entries 1e4 times larger than the second
        v = np.array([rng.normal() * (1.0 if 2 * j < n else 1e-4) for j in range(n)])
      else:
        v = np.array([rng.normal() for _ in range(n)])
      gt["p%d" % i] = v.reshape(s).astype(dtype)
    out.append(gt)
  return out


class SvdCapture:

  def __init__(self):
    self.calls = []

  def install(self, jnp):
    self.jnp = jnp
    self.o_svd = jnp.linalg.svd

    def svd(x, *a, **kw):
      out = self.o_svd(x, *a, **kw)
      self.calls.append((np.asarray(x), [np.asarray(o) for o in out]))
      return out

    jnp.linalg.svd = svd

  def uninstall(self):
    self.jnp.linalg.svd = self.o_svd


def locate(state, cfg):
  """Named views into the optimizer state (layout of tearfree() / sharded_chain)."""
  import optax
  first, mom, lrs = state
  if cfg["graft"] == "none":
    gcount, so_chain, norm = None, first, None
  else:
    gcount, so_chain, norm = first.count, first.direction, first.norm
  so = so_chain[1]
  trace = None
  for s in mom:
    if isinstance(s, optax.TraceState):
      trace = s.trace
  lrcount = lrs.count if isinstance(lrs, optax.ScaleByScheduleState) else None
  return dict(gcount=gcount, so=so, norm=norm, trace=trace, lrcount=lrcount)


def dump_state(state, cfg, names):
  from precondition.tearfree import grafting
  v = locate(state, cfg)
  so = v["so"]
  out = dict(gcount=None if v["gcount"] is None else int(v["gcount"]), socount=int(so.count),
             lrcount=None if v["lrcount"] is None else int(v["lrcount"]), leaves={})
  tree = so.blocks if cfg["so"] == "shampoo" else so.sketches
  for nm in names:
    node = tree[nm]
    leaf = {}
    if isinstance(node, grafting._GraftMask):   # pylint: disable=protected-access
      leaf["so"] = None
    elif cfg["so"] == "shampoo":
      leaf["so"] = dict(stats=[[mat(b) for b in np.asarray(a)] for a in node.stats],
                        roots=[[mat(b) for b in np.asarray(a)] for a in node.roots])
    else:
      leaf["so"] = dict(axes=[dict(V=[fl(np.asarray(a.eigvecs)[:, j])
                                      for j in range(np.asarray(a.eigvecs).shape[1])],
                                   e=fl(a.eigvals), inv=fl(a.inv_eigvals), tail=float(a.tail),
                                   inv_tail=float(a.inv_tail)) for a in node.axes])
    if cfg["graft"] == "rmsprop":
      leaf["acc"] = fl(v["norm"].acc[nm])
    else:
      leaf["acc"] = []
    leaf["trace"] = fl(v["trace"][nm]) if v["trace"] is not None else []
    out["leaves"][nm] = leaf
  return out


def tree_bits(tree):
  import jax
  return [np.asarray(l).tobytes() for l in jax.tree_util.tree_leaves(tree)]


def float_state_bits(state):
  """Bit patterns of every floating-point leaf of the state (counters excluded)."""
  import jax
  return [(str(np.asarray(l).dtype), np.asarray(l).tobytes())
          for l in jax.tree_util.tree_leaves(state) if np.issubdtype(np.asarray(l).dtype, np.floating)]


def eig_proposals(post, names, shapes_info):
  """numpy eigen-decompositions of the stored statistics (proposals, checked in Coq)."""
  out = {}
  for nm in names:
    so = post["leaves"][nm]["so"]
    if so is None:
      continue
    p = 2 * len(so["stats"])
    per_axis = []
    for blocks in so["stats"]:
      pb = []
      for b in blocks:
        a = np.array(b, dtype=np.float64)
        w, v = np.linalg.eigh(a)
        wmax = float(np.max(w)) if len(w) else 0.0
        r = [0.0 if (wi <= 1e-6 * wmax) else float(wi ** (-1.0 / p)) for wi in w]
        pb.append(dict(w=fl(w), V=[fl(v[:, j]) for j in range(v.shape[1])], r=r))
      per_axis.append(pb)
    out[nm] = per_axis
  return out


def run_case(case, cap):
  import jax
  import jax.numpy as jnp
  import optax
  from precondition.tearfree import optimizer, reshaper, shampoo
  cfg = case["cfg"]
  dtype = np.float64 if cfg["so"] == "shampoo" else np.float32
  rng = common.SplitMix64(case["seed"])
  params0 = gen_tree(rng, cfg, case, dtype)
  grads = gen_grads(rng, case, dtype)
  names = sorted(params0.keys())
  opts = build_options(cfg)
  tx = optimizer.tearfree(lr_of(cfg), opts)
  params = {k: jnp.asarray(v) for k, v in params0.items()}
  state = tx.init(params)
  # shape metadata as the implementation derives it (compared with C06.Ref in Coq)
  block = cfg["block"] if cfg["so"] == "shampoo" else 0
  ropts = reshaper.Options(cfg["merge"], block)
  meta = {}
  for nm in names:
    sh = reshaper._derive_shapes(ropts, params[nm])   # pylint: disable=protected-access
    meta[nm] = dict(shape=list(params[nm].shape), merged=list(sh.merged_shape),
                    padded=list(sh.padded_shape))
  # independent adafactor instance as the grafting oracle
  ada = None
  if cfg["graft"] == "adafactor":
    ada = optax.chain(optax.adafactor(
        min_dim_size_to_factor=cfg.get("ada_min_dim", 2), decay_rate=cfg["gbeta"],
        multiply_by_parameter_scale=cfg.get("ada_param_scale", False), eps=cfg["geps"],
        clipping_threshold=cfg.get("ada_clip", 1.0)), optax.scale(-1))
    ada_state = ada.init(params)
  states = [dump_state(state, cfg, names)]
  steps = []
  param_seq, state_seq, upd_seq = [], [], []
  for t in range(case["T"]):
    g = {k: jnp.asarray(v) for k, v in grads[t].items()}
    cap.calls = []
    param_seq.append(params)
    state_seq.append(state)
    upd, state = tx.update(g, state, params)
    upd_seq.append(upd)
    post = dump_state(state, cfg, names)
    st = dict(leaves={})
    if ada is not None:
      ada_upd, ada_state = ada.update(g, ada_state, params)
    svd_calls = list(cap.calls)
    ci = 0
    for nm in names:
      lf = dict(param=fl(params[nm]), grad=fl(g[nm]), update=fl(upd[nm]))
      if ada is not None:
        lf["ada"] = fl(ada_upd[nm])
      if cfg["so"] == "sketchy" and post["leaves"][nm]["so"] is not None and (
          states[-1]["socount"] % cfg["sfreq"] == 0):
        svds = []
        for _ in post["leaves"][nm]["so"]["axes"]:
          x, out = svd_calls[ci]
          ci += 1
          u, s = out[0], out[1]
          svds.append(dict(F=mat(x), U=[fl(u[:, j]) for j in range(u.shape[1])], s=fl(s)))
        lf["svd"] = svds
      st["leaves"][nm] = lf
    if cfg["so"] == "sketchy" and ci != len(svd_calls):
      raise RuntimeError("captured %d svd calls, consumed %d" % (len(svd_calls), ci))
    if cfg["so"] == "shampoo" and states[-1]["socount"] % cfg["pfreq"] == 0:
      st["eig"] = eig_proposals(post, names, meta)
    steps.append(st)
    states.append(post)
    params = optax.apply_updates(params, upd)
  # ---- lr linearity / state independence, bitwise, same parameter trajectory -----------------
  lin = []
  for k in case.get("lr_pows", []):
    sc = 2.0 ** k
    tx2 = optimizer.tearfree(lr_of(cfg, sc), opts)
    s2 = tx2.init(param_seq[0])
    bad = None
    for t in range(case["T"]):
      g = {kk: jnp.asarray(v) for kk, v in grads[t].items()}
      u1 = upd_seq[t]
      u2, s2n = tx2.update(g, s2, param_seq[t])
      for nm in names:
        a = np.asarray(u1[nm]) * np.asarray(sc, dtype=np.asarray(u1[nm]).dtype)
        b = np.asarray(u2[nm])
        if a.tobytes() != b.tobytes() and not (np.all(a == b)):
          bad = bad or dict(step=t, leaf=nm, what="update(lr*2^%d) != 2^%d*update(lr)" % (k, k),
                            lhs=fl(b)[:6], rhs=fl(a)[:6])
      nxt = state_seq[t + 1] if t + 1 < case["T"] else state
      if float_state_bits(s2n) != float_state_bits(nxt):
        bad = bad or dict(step=t, leaf=None, what="state after the step depends on lr (ratio 2^%d)" % k)
      s2 = s2n
    lin.append(dict(k=k, ok=bad is None, bad=bad))
  return dict(meta=meta, names=names, states=states, steps=steps, lin=lin)


def run(payload):
  import jax
  import jax.numpy as jnp
  import io
  import contextlib
  cap = SvdCapture()
  cap.install(jnp)
  out = []
  try:
    for case in payload["cases"]:
      try:
        with jax.disable_jit(), contextlib.redirect_stdout(io.StringIO()):
          r = run_case(case, cap)
        r["case"] = case
        out.append(r)
      except Exception as e:  # pylint: disable=broad-except
        out.append(dict(case=case, exc="%s: %s" % (type(e).__name__, str(e)[:300]),
                        trace=traceback.format_exc()[-2000:]))
  finally:
    cap.uninstall()
  return dict(results=out)


if __name__ == "__main__":
  common.worker_main(run)
