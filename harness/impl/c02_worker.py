"""Implementation-side driver for C02: runs distributed_shampoo(...).init/update (replicated,
unquantized, float32 parameters, x64 enabled so roots run in float64) over a gradient history and
returns, per step and per leaf, parameters, gradient, state before/after, metrics and the update as
exact floats."""
import numpy as np

from harness import common


def fl(x):
  return [float(v) for v in np.asarray(x, dtype=np.float64).ravel()]


def mat(x):
  x = np.asarray(x, dtype=np.float64)
  return [[float(v) for v in row] for row in x]


GRAFT = ["NONE", "SGD", "ADAGRAD", "RMSPROP", "RMSPROP_NORMALIZED", "SQRT_N", "ADAGRAD_NORMALIZED"]


def make_lr(case):
  if case.get("lr_schedule"):
    base = case["lr"]
    return lambda t: base / (1.0 + t)       # jnp-traceable, exact for small t? (float division)
  return case["lr"]


def gen_grad(rng, shape, kind, t, gscale=1.0):
  n = int(np.prod(shape)) if len(shape) else 1
  if kind == "int":
    v = [float(rng.rint(-4, 4)) for _ in range(n)]
  elif kind == "zero_some" and rng.below(4) == 0:
    v = [0.0] * n
  elif kind == "scale":
    v = [rng.normal() * gscale for _ in range(n)]
  else:
    v = [rng.normal() for _ in range(n)]
  return np.asarray(v, np.float32).reshape(shape)


def leaf_state(ps):
  def q(x):
    return x.to_float() if hasattr(x, "to_float") else x
  tm = ps.training_metrics
  out = dict(diag=fl(q(ps.diagonal_statistics)), dmom=fl(q(ps.diagonal_momentum)),
             mom=fl(q(ps.momentum)),
             stats=[mat(q(s)) for s in ps.statistics],
             preconds=[mat(q(p)) for p in ps.preconditioners])
  if hasattr(tm, "inverse_pth_root_errors"):
    out.update(err=fl(tm.inverse_pth_root_errors), maxev=fl(tm.max_eigen_value),
               retries=fl(tm.total_retries))
  return out


def power_iteration_estimates(ds, jnp, stats):
  """The eigh root scales its ridge by power_iteration's estimate but does not report it; the estimate
  is a deterministic function of the statistic (fixed start vector, whose leading entries do not depend
  on the padded size; zero padding is masked), so it is recomputed by the same routine on the stored
  statistic (float64, as the root routine casts it)."""
  out = []
  for s in stats:
    m = jnp.asarray(np.asarray(s, np.float64))
    out.append(float(ds.power_iteration(m, num_iters=100, error_tolerance=1e-6)[1]) if m.size else 0.0)
  return out


def run_case(case, jax, jnp, ds):
  rng = common.SplitMix64(case["seed"])
  shapes = case["shapes"]
  params = {"p%02d" % i: jnp.asarray(
      np.asarray([rng.rint(-3, 3) * 0.25 for _ in range(int(np.prod(s)) if len(s) else 1)],
                 np.float32).reshape(s)) for i, s in enumerate(shapes)}
  kw = dict(
      block_size=case["block"], beta1=case["beta1"], beta2=case["beta2"],
      diagonal_epsilon=case["diag_eps"], matrix_epsilon=case["mat_eps"],
      weight_decay=case["wd"], start_preconditioning_step=case["start"],
      preconditioning_compute_steps=case["pcs"], statistics_compute_steps=case["scs"],
      best_effort_shape_interpretation=case["best_effort"],
      graft_type=getattr(ds.GraftingType, GRAFT[case["graft"]]), nesterov=case["nesterov"],
      exponent_override=case["expo"], batch_axis_name=None,
      inverse_failure_threshold=case["thr"], moving_average_for_momentum=case["moving_avg"],
      skip_preconditioning_dim_size_gt=case["skip_dim_gt"],
      skip_preconditioning_rank_lt=case["skip_rank_lt"],
      merge_small_dims_block_size=case["merge"],
      precondtioner_type={1: ds.PreconditionerType.ALL, 2: ds.PreconditionerType.INPUT,
                          3: ds.PreconditionerType.OUTPUT}[case["ptype"]],
      decoupled_learning_rate=case["dec_lr"], decoupled_weight_decay=case["dec_wd"],
      generate_training_metrics=True, eigh=case["eigh"])
  lr = make_lr(case)
  opt = ds.distributed_shampoo(lr, **kw)
  state = opt.init(params)
  steps = []
  names = sorted(params)
  for t in range(case["T"]):
    grads = {k: jnp.asarray(gen_grad(rng, tuple(params[k].shape), case["hist"], t,
                                       case.get("gscale", 1.0))) for k in names}
    before = {k: leaf_state(state.stats[k]) for k in names}
    upd, new_state = opt.update(grads, state, params)
    after = {k: leaf_state(new_state.stats[k]) for k in names}
    if case.get("eigh"):
      for k in names:
        after[k]["maxev_pi"] = power_iteration_estimates(ds, jnp, after[k]["stats"])
    lr_t = float(np.float32(lr(jnp.asarray(t, jnp.int32)))) if callable(lr) else float(lr)
    steps.append(dict(t=t, count_before=int(state.count), count_after=int(new_state.count), lr=lr_t,
                      leaves=[dict(name=k, shape=list(map(int, params[k].shape)),
                                   param=fl(params[k]), grad=fl(grads[k]), before=before[k],
                                   after=after[k], update=fl(upd[k]),
                                   upd_shape=list(map(int, upd[k].shape)),
                                   upd_dtype=str(upd[k].dtype)) for k in names]))
    params = {k: params[k] + upd[k] for k in names}
    state = new_state
  out = dict(case=case, steps=steps)
  if case.get("pmap"):
    out["pmap"] = pmap_vs_plain(case, kw, lr, steps, jax, jnp, ds)
  return out


def pmap_vs_plain(case, kw, lr, steps, jax, jnp, ds):
  """The same history under jax.pmap on D devices (batch_axis_name set, replicated inputs): every
  replica's update must be the update of the un-pmapped run, which the model has just validated."""
  D = case["pmap"]
  devs = jax.devices()[:D]
  if len(devs) != D:
    return dict(skipped="only %d devices" % len(devs))
  opt = ds.distributed_shampoo(lr, **dict(kw, batch_axis_name="batch"))
  rep = lambda tree: jax.tree.map(lambda x: jnp.stack([x] * D), tree)
  names = [lf["name"] for lf in steps[0]["leaves"]]
  shp = {lf["name"]: tuple(lf["shape"]) for lf in steps[0]["leaves"]}
  params = {k: jnp.asarray(np.asarray(lf["param"], np.float32).reshape(shp[k]))
            for k, lf in zip(names, steps[0]["leaves"])}
  state = jax.pmap(opt.init, axis_name="batch", devices=devs)(rep(params))
  upd = jax.pmap(opt.update, axis_name="batch", devices=devs)
  worst, first = 0.0, None
  for st in steps:
    grads = {lf["name"]: jnp.asarray(np.asarray(lf["grad"], np.float32).reshape(shp[lf["name"]]))
             for lf in st["leaves"]}
    u, state = upd(rep(grads), state, rep(params))
    for lf in st["leaves"]:
      ref = np.asarray(lf["update"], np.float64).reshape(shp[lf["name"]])
      for d in range(D):
        got = np.asarray(u[lf["name"]][d], np.float64)
        rel = float(np.abs(got - ref).max() / max(np.abs(ref).max(), 1e-30))
        if not np.isfinite(rel):
          rel = float("inf")
        if rel > worst:
          worst = rel
          first = first or dict(step=st["t"], leaf=lf["name"], replica=d, rel=rel)
    params = {k: params[k] + jnp.asarray(np.asarray(
        [lf["update"] for lf in st["leaves"] if lf["name"] == k][0], np.float32).reshape(shp[k])) for k in names}
  return dict(worst=worst, first=first, D=D)


def run(payload):
  import jax
  import jax.numpy as jnp
  from precondition import distributed_shampoo as ds
  res = []
  for case in payload["cases"]:
    try:
      res.append(run_case(case, jax, jnp, ds))
    except Exception as e:  # pylint: disable=broad-except
      import traceback
      res.append(dict(case=case, exc="%s: %s" % (type(e).__name__, str(e)[:300]),
                      trace=traceback.format_exc()[-1500:]))
  return dict(results=res)


if __name__ == "__main__":
  common.worker_main(run)
