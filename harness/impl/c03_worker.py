"""Implementation-side driver for C03: runs distributed_shampoo through its public init/update API
(replicated / pmap int16-quantized / sharded) on fault-injected gradient histories and reports,
for every update and every stored preconditioner: bitwise changed?, finite?, the reported
inverse_pth_root_error, whether the update is finite -- plus a monitor of the oracle assumption
"finite reported error => finite root" obtained by calling matrix_inverse_pth_root directly on
the observed statistics."""
import numpy as np

from harness import common

SHAPES = {"u": (1,), "v": (2,), "w": (3, 4), "x": (1, 3)}
EXPONENT = {"u": 2, "v": 2, "w": 4, "x": 4}     # 2 * rank of the (unmerged) parameter
# best_effort_shape_interpretation=False: no merging of dimensions, so x:(1,3) keeps its 1x1 and
# 3x3 statistics (for u, v, w this is what merge_small_dims_block_size=1 gives anyway)
START_PRECOND = 2


def dec(x):
  if isinstance(x, str):
    return float(x)
  return x


def enc(x):
  x = float(x)
  if x != x:
    return "nan"
  if x in (float("inf"), float("-inf")):
    return "inf" if x > 0 else "-inf"
  return x


def run(payload):
  import warnings
  warnings.filterwarnings("ignore")
  import jax
  import jax.numpy as jnp
  from precondition import distributed_shampoo as ds

  out = []
  for grp in payload["groups"]:
    cfg = grp["cfg"]
    # the parameter tree is the set of keys of the gradients (all histories of a group agree)
    names = sorted(grp["histories"][0]["grads"][0].keys())
    params = {k: jnp.ones(SHAPES[k], jnp.float32) for k in names}
    MAXSZ = max(max(SHAPES[k]) for k in names)
    mode = cfg["mode"]
    D = 2 if mode == "pmapq" else 1
    kw = dict(beta1=0.9, beta2=cfg["beta2"], matrix_epsilon=cfg["eps"],
              start_preconditioning_step=START_PRECOND,
              preconditioning_compute_steps=cfg["pcs"],
              graft_type=getattr(ds.GraftingType, cfg["graft"]),
              inverse_failure_threshold=cfg["thr"], merge_small_dims_block_size=1,
              best_effort_shape_interpretation=False,
              generate_training_metrics=True, eigh=cfg["eigh"])
    mesh = None
    gres = dict(gid=grp["gid"], histories=[])
    try:
      if mode == "replicated":
        opt = ds.distributed_shampoo(0.1, 32, batch_axis_name=None, **kw)
        state0 = opt.init(params)
        update = jax.jit(opt.update)
      elif mode == "pmapq":
        opt = ds.distributed_shampoo(0.1, 32, batch_axis_name="batch",
                                     best_effort_memory_usage_reduction=True, **kw)
        devs = jax.devices()[:D]
        assert len(devs) == D, "need %d host devices" % D
        rep = lambda tree: jax.tree.map(lambda x: jnp.stack([x] * D), tree)
        state0 = rep(opt.init(params))
        rparams = rep(params)
        pm = jax.pmap(opt.update, axis_name="batch", devices=devs)
        update = lambda g, s, p: pm(rep(g), s, rparams)
      elif mode == "sharded":
        opt = ds.distributed_shampoo(0.1, 32, batch_axis_name=None, shard_optimizer_states=True,
                                     num_devices_for_pjit=1, **kw)
        mesh = jax.sharding.Mesh(np.array(jax.devices()[:1]), ("x",))
        with mesh:
          state0 = opt.init(None).init_fn(params)
          update = jax.jit(opt.update)
      else:
        raise ValueError(mode)

      direct = jax.jit(lambda m, p, ps: ds.matrix_inverse_pth_root(
          m, p, ridge_epsilon=cfg["eps"], eigh=cfg["eigh"], padding_start=ps))

      def observe(state):
        """list (statistics order: v, w[0], w[1]) of dict(leaves=[bytes], finite, err, stat)"""
        obs = []
        if mode == "sharded":
          P = np.asarray(state.stats.global_stats.preconditioners)
          S = np.asarray(state.stats.global_stats.statistics)
          for k in names:
            ls = state.stats.local_stats[k]
            errs = np.asarray(ls.training_metrics.inverse_pth_root_errors)
            for i, size in enumerate(ls.sizes):
              j = int(ls.index_start) + i
              obs.append(dict(leaves=[P[j].tobytes()], finite=bool(np.isfinite(P[j]).all()),
                              err=float(errs[i]), stat=S[j], size=int(size), name=k,
                              val=P[j]))
        else:
          pick = (lambda x: np.asarray(x)[0]) if mode == "pmapq" else np.asarray
          for k in names:
            st = state.stats[k]
            errs = pick(st.training_metrics.inverse_pth_root_errors)
            for i, (p, s) in enumerate(zip(st.preconditioners, st.statistics)):
              if mode == "pmapq":
                full = [np.asarray(p.quantized), np.asarray(p.diagonal), np.asarray(p.bucket_size)]
                same = all((a[0].tobytes() == a[d].tobytes()) for a in full for d in range(1, D))
                leaves = [a[0] for a in full]
                fin = bool(np.isfinite(leaves[1]).all() and np.isfinite(leaves[2]).all())
                sq = jax.tree.map(lambda x: x[0], s)
                stat = np.asarray(sq.to_float())
                val = np.asarray(jax.tree.map(lambda x: x[0], p).to_float())
                obs.append(dict(leaves=[a.tobytes() for a in leaves], finite=fin and bool(np.isfinite(val).all()),
                                err=float(errs[i]), stat=stat, size=int(stat.shape[0]), name=k,
                                val=val, replicas_agree=same))
              else:
                a = np.asarray(p)
                stat = np.asarray(s)
                obs.append(dict(leaves=[a.tobytes()], finite=bool(np.isfinite(a).all()),
                                err=float(errs[i]), stat=stat, size=int(stat.shape[0]), name=k, val=a))
        return obs

      def run_history(h):
        state = state0
        before = observe(state)
        hres = dict(hid=h["hid"], steps=[], init_finite=all(o["finite"] for o in before),
                    init_identity=all(bool(np.array_equal(o["val"][:o["size"], :o["size"]],
                                                          np.eye(o["size"], dtype=np.float32)))
                                      for o in before))
        for t, g in enumerate(h["grads"]):
          grads = {k: jnp.asarray(np.asarray([dec(x) for x in g[k]], np.float32).reshape(SHAPES[k]))
                   for k in names}
          upd, state = update(grads, state, params)
          after = observe(state)
          refresh = (t % cfg["pcs"] == 0)
          trs = []
          for b, a in zip(before, after):
            tr = dict(changed=(b["leaves"] != a["leaves"]), finite=a["finite"], err=enc(a["err"]))
            if "replicas_agree" in a and not a["replicas_agree"]:
              tr["replicas_differ"] = True
            if refresh:
              # monitor of the oracle assumption + candidate root, by a direct kernel call on the
              # statistics the optimizer has just used
              sz = a["size"]
              m = np.zeros((MAXSZ, MAXSZ), np.float32)
              m[:sz, :sz] = a["stat"][:sz, :sz]
              cand, met = direct(jnp.asarray(m), EXPONENT[a["name"]], sz)
              cand = np.asarray(cand)[:sz, :sz]
              e_d = float(met.inverse_pth_root_errors)
              tr["direct_err"] = enc(e_d)
              tr["direct_finite"] = bool(np.isfinite(cand).all())
              if mode != "pmapq":
                cur = a["val"][:sz, :sz]
                old = b["val"][:sz, :sz]
                with np.errstate(all="ignore"):
                  sc = float(np.max(np.abs(cand))) if cand.size else 0.0
                  tr["dist_new"] = enc(float(np.max(np.abs(cur - cand))) / (sc + 1e-30))
                  tr["dist_old"] = enc(float(np.max(np.abs(old - cand))) / (sc + 1e-30))
            trs.append(tr)
          uf = all(bool(np.isfinite(np.asarray(upd[k])).all()) for k in names)
          hres["steps"].append(dict(trs=trs, upd_finite=uf, count=int(np.asarray(state.count).ravel()[0])))
          before = after
        return hres

      if mesh is not None:
        with mesh:
          for h in grp["histories"]:
            gres["histories"].append(run_history(h))
      else:
        for h in grp["histories"]:
          gres["histories"].append(run_history(h))
    except Exception as e:  # pylint: disable=broad-except
      import traceback
      gres["exc"] = "%s: %s" % (type(e).__name__, str(e)[:300])
      gres["trace"] = traceback.format_exc()[-1500:]
    out.append(gres)
  return dict(results=out)


if __name__ == "__main__":
  common.worker_main(run)
