"""Implementation-side driver for C01: calls matrix_inverse_pth_root (Newton / eigh) and
power_iteration directly under x64 with every lax.while_loop replaced by a recording Python loop
(jax.disable_jit), returning inputs, outputs, metrics and sampled loop transitions as exact floats."""
import math

import numpy as np

from harness import common


def fl(x):
  return [float(v) for v in np.asarray(x, dtype=np.float64).ravel()]


def mat(x):
  x = np.asarray(x, dtype=np.float64)
  return [[float(v) for v in row] for row in x]


def rand_orth(rng, n):
  a = np.array([[rng.normal() for _ in range(n)] for _ in range(n)])
  q, r = np.linalg.qr(a)
  return q * np.sign(np.diag(r))


def gen_matrix(rng, case):
  """Returns (A (n x n float64, zero-padded to n+pad), spectrum of the unpadded block)."""
  n, kind = case["n"], case["kind"]
  if kind == "zero":
    lam = np.zeros(n)
    A = np.zeros((n, n))
  elif kind == "identity":
    lam = np.ones(n) * case["scale"]
    A = np.eye(n) * case["scale"]
  elif kind == "gram":
    m = case.get("rank", n)
    G = np.array([[rng.rint(-4, 4) for _ in range(m)] for _ in range(n)], dtype=np.float64)
    A = G @ G.T
    lam = np.clip(np.linalg.eigvalsh(A), 0, None)
  else:
    r = case.get("rank", n)
    spread = case["spread"]
    top = case["scale"]
    lam = np.zeros(n)
    for i in range(r):
      lam[i] = top * (spread ** (-(i / max(1, r - 1)))) if r > 1 else top
    q = rand_orth(rng, n)
    A = (q * lam) @ q.T
    A = (A + A.T) / 2
  pad = case.get("pad", 0)
  if pad:
    B = np.zeros((n + pad, n + pad))
    B[:n, :n] = A
    A = B
  if case.get("dtype") == "f32":
    A = np.asarray(A, np.float32).astype(np.float64)
  return A, lam


class LoopRecorder:

  def __init__(self):
    self.traces = []

  def install(self, jax):
    self.jax = jax
    self.orig = jax.lax.while_loop

    def rec(cond, body, init):
      name = getattr(body, "__qualname__", "?")
      states = [init]
      st = init
      k = 0
      while bool(cond(st)):
        st = body(st)
        states.append(st)
        k += 1
        if k > 10000:
          raise RuntimeError("loop did not terminate")
      self.traces.append((name, states))
      return st

    jax.lax.while_loop = rec

  def uninstall(self):
    self.jax.lax.while_loop = self.orig


def sample_indices(rng, m, k=8):
  if m <= k:
    return list(range(m))
  idx = set([0, 1, m - 2, m - 1])
  while len(idx) < k:
    idx.add(rng.below(m))
  return sorted(idx)


def run_case(case, rec, jax, jnp, ds):
  rng = common.SplitMix64(case["seed"])
  A, lam = gen_matrix(rng, case)
  N = A.shape[0]
  s = case["n"]
  pad = case.get("pad", 0)
  p = case["p"]
  dtype = jnp.float32 if case.get("dtype") == "f32" else jnp.float64
  Aj = jnp.asarray(A, dtype)
  padding_start = s if (pad or case.get("force_ps")) else None
  rec.traces = []
  X, metrics = ds.matrix_inverse_pth_root(
      Aj, p, num_iters=100, ridge_epsilon=case["eps"], error_tolerance=1e-6,
      relative_matrix_epsilon=case["relative"], padding_start=padding_start, eigh=case["eigh"],
      lobpcg_topk_precondition=case.get("lobpcg", 0))
  traces = rec.traces
  rec.traces = []
  out = dict(case=case, A=mat(A), X=mat(X), N=N, s=s, lam=[float(x) for x in lam],
             err=float(metrics.inverse_pth_root_errors),
             finite=bool(np.all(np.isfinite(np.asarray(X)))))
  if not case["eigh"]:
    out.update(maxev_metric=float(metrics.max_eigen_value), retries=float(metrics.total_retries),
               iters=float(metrics.inverse_pth_root_iters), ratio=float(metrics.final_error_ratio))
  # the deterministic eigenvalue estimate, recomputed in float64 by a direct call
  if case["relative"]:
    A64 = jnp.asarray(A, jnp.float64)
    if padding_start is not None:
      ix = (np.arange(N) < padding_start).astype(np.float64)
      A64 = A64 * ix[None, :] * ix[:, None]
    tol_pi = 1e-6
    v, mev = ds.power_iteration(A64, num_iters=100, error_tolerance=tol_pi,
                                padding_start=padding_start)
    out.update(maxev=float(mev), v=fl(v))
    pi = [t for t in rec.traces if "power_iteration" in t[0]]
    if pi:
      st = pi[-1][1]
      # last executed body: new_v (normalised inside) and s_new; record (v_in, s_out)
      if len(st) >= 2:
        vin = np.asarray(st[-2][1], np.float64)
        out.update(pi_vin=fl(vin), pi_s=float(st[-1][2]), pi_steps=len(st) - 1)
    rec.traces = []
  else:
    out.update(maxev=1.0)
  # sampled Newton transitions
  trans = []
  if not case["eigh"] and N > 1:
    inner = [t for t in traces if t[0].endswith("matrix_inverse_pth_root.<locals>._iter_body")]
    outer = [t for t in traces if "_outer_body_fn" in t[0]]
    out["attempts"] = len(inner)
    out["outer_states"] = [[int(st[0]), float(st[2]), bool(st[5])] for st in outer[0][1]] if outer else []
    for ai, (_, states) in enumerate(inner):
      m = len(states) - 1
      guards = [[int(st[0]), float(st[4]), float(st[5])] for st in states]
      out.setdefault("guards", []).append(guards)
      for k in sample_indices(rng, m, 6):
        a, b = states[k], states[k + 1]
        trans.append(dict(attempt=ai, k=k, i=int(a[0]), i2=int(b[0]), M=mat(a[1]), H=mat(a[2]),
                          err=float(a[4]), M2=mat(b[1]), H2=mat(b[2]), Hold2=mat(b[3]),
                          err2=float(b[4]), ratio2=float(b[5])))
  out["transitions"] = trans
  out["alpha"] = float(np.float64(-1.0 / p))
  return out


def run(payload):
  import jax
  import jax.numpy as jnp
  from precondition import distributed_shampoo as ds
  rec = LoopRecorder()
  rec.install(jax)
  res = []
  try:
    for case in payload["cases"]:
      try:
        with jax.disable_jit():
          res.append(run_case(case, rec, jax, jnp, ds))
      except Exception as e:  # pylint: disable=broad-except
        import traceback
        res.append(dict(case=case, exc="%s: %s" % (type(e).__name__, str(e)[:300]),
                        trace=traceback.format_exc()[-1500:]))
  finally:
    rec.uninstall()
  return dict(results=res)


if __name__ == "__main__":
  common.worker_main(run)
