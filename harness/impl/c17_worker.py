"""Implementation-side driver for C17: builds synthetic in-memory optimizer states and calls the
working tree's reallocation.create_redist_dict (plus layers_and_axes / create_groups / score_fn,
to observe the enumeration order of the `layer_names` set, the groups and the float32 scores).
Raw outputs only; verdicts are computed in harness/c17.py (oracle) and in Coq (model)."""
import numpy as np

from harness import common


def _f32(bits):
  return np.array(bits, dtype=np.uint32).view(np.float32)


def _bits(x):
  return int(np.asarray(x, dtype=np.float32).reshape(()).view(np.uint32))


def build_states(case, jnp):
  nst = case["nstates"]
  states = []
  for k in range(nst):
    sk = {}
    for layer in case["layers"]:
      cur = sk
      for d in layer["path"]:
        cur = cur.setdefault(d, {})
      axes = cur.setdefault("axes", {})
      for a, spec in layer["axes"].items():
        leaf = {}
        data = spec["states"][k]
        if "eigvals" in data:
          leaf["eigvals"] = jnp.asarray(_f32(data["eigvals"]))
        if "tail" in data:
          leaf["tail"] = jnp.asarray(_f32([data["tail"]])[0])
        if "ema_ggt" in data:
          leaf["ema_ggt"] = jnp.asarray(_f32(data["ema_ggt"]))
        if spec["dim_via"] == "dim":
          leaf["dim"] = spec["dim"]
        else:
          leaf["eigvecs"] = jnp.zeros((spec["dim"], 1), jnp.float32)
        axes[a] = leaf
    states.append({"inner_state": {"0": {"direction": {"1": {"sketches": sk}}}}})
  return tuple(states)


def flatten(d, prefix=()):
  out = {}
  for k, v in d.items():
    if isinstance(v, dict):
      out.update(flatten(v, prefix + (k,)))
    else:
      out["/".join(prefix + (k,))] = [int(x) for x in v]
  return out


def run(payload):
  import jax  # noqa: F401
  import jax.numpy as jnp
  from precondition.tearfree import reallocation as R

  res = []
  for case in payload["cases"]:
    r = dict(id=case["id"])
    try:
      states = build_states(case, jnp)
      sketches = states[-1]["inner_state"]["0"]["direction"]["1"]["sketches"]
      layer_names, num_axes = R.layers_and_axes(sketches)
      r["order"] = list(layer_names)
      r["num_axes"] = int(num_axes)
      groups = R.create_groups(sketches, layer_names)
      r["groups"] = [[int(k), list(v)] for k, v in groups.items()]
      sd = R.score_fn(states, case["rule"], layer_names, case["running_average"])
      r["scores"] = {k: _bits(v) for k, v in sd.items()}
      r["score_order"] = list(sd)
    except Exception as e:  # pylint: disable=broad-except
      r["pre_exc"] = "%s: %s" % (type(e).__name__, str(e)[:200])
    try:
      states = build_states(case, jnp)
      out = R.create_redist_dict("", [-1], case["rule"], case["running_average"], case["rank"],
                                 states)
      r["out"] = flatten(out)
    except Exception as e:  # pylint: disable=broad-except
      r["exc"] = "%s: %s" % (type(e).__name__, str(e)[:200])
    res.append(r)
  return dict(results=res)


if __name__ == "__main__":
  common.worker_main(run)
