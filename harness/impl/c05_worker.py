"""Implementation-side driver for C05 (grafting).

Drives the PUBLIC optimizers (distributed_shampoo.distributed_shampoo, tearfree.optimizer.tearfree)
with momentum and weight decay disabled and learning rate 1, so that  -update  IS the pre-momentum
update u_t of every parameter.  For every step and parameter it reports
  u        the observed pre-momentum update,
  p        the implementation's OWN preconditioned gradient (DS: Preconditioner.preconditioned_grad
           with the preconditioners found in the returned state, dequantized if needed; Tearfree: the
           second_order transform run in lock-step on the same masked inputs),
  hist     the gradient history (integers, generated here from the case seed),
and evaluates the property directly (float64 numpy): norm identity, direction, warm-up / skipped
equality with the closed-form graft step.
"""
import math
import traceback

import numpy as np

from harness import common

EPS = 1e-25  # distributed_shampoo._EPSILON (asserted below)

GT_NONE, GT_SGD, GT_ADAGRAD, GT_RMSPROP, GT_RMSPROP_N, GT_SQRT_N, GT_ADAGRAD_N = range(7)


def gen_grads(rng, shapes, steps, zero_at=None, scale_exps=None):
  hist = []
  for t in range(steps):
    gs = []
    for k, sh in enumerate(shapes):
      n = int(np.prod(sh)) if sh else 1
      vals = [rng.rint(-4, 4) for _ in range(n)]
      if all(v == 0 for v in vals):
        vals[0] = 1
      if zero_at is not None and zero_at == (t, k):
        vals = [0] * n
      sc = 2.0 ** scale_exps[t] if scale_exps else 1.0       # power of two: exact in float32
      gs.append((np.array(vals, dtype=np.float32) * np.float32(sc)).reshape(sh))
    hist.append(gs)
  return hist


def ds_graft_closed_form(gt, hist, beta2, deps):
  """Closed-form graft step after the last gradient of hist (float64)."""
  g = hist[-1].astype(np.float64)
  if gt in (GT_NONE, GT_SGD):
    return g
  if gt == GT_SQRT_N:
    return np.sign(g)
  normalized = gt in (GT_RMSPROP_N, GT_ADAGRAD_N)

  def sc(x):
    x = x.astype(np.float64)
    return x / (np.linalg.norm(x) + EPS) if normalized else x

  T = len(hist)
  if gt in (GT_ADAGRAD, GT_ADAGRAD_N):
    acc = sum(sc(h) ** 2 for h in hist)
  else:
    w2 = beta2 if beta2 == 1.0 else 1.0 - beta2
    acc = sum(w2 * beta2 ** (T - 1 - s) * sc(hist[s]) ** 2 for s in range(T))
  return sc(hist[-1]) / (np.sqrt(acc) + deps)


def rel_dev(a, b):
  scale = max(float(np.abs(b).max()) if b.size else 0.0, 1e-300)
  return float(np.abs(a - b).max()) / scale if a.size else 0.0


def judge_step(rec, u, p, s, grafted, no_norm, fail, exact_warm):
  """Property oracle on one (step, parameter).  u observed, p own preconditioned gradient (or None),
  s closed-form graft step (float64), grafted: from-start-step-on and not skipped."""
  u64 = u.astype(np.float64)
  if not grafted:
    dev = rel_dev(u64, s)
    rec["warm_dev"] = dev
    tol = 0.0 if exact_warm else 2e-6
    if not dev <= tol:
      fail("step %d param %d: update is not the graft step (rel dev %.3e > %.1e) [%s]" %
           (rec["t"], rec["k"], dev, tol, "skipped" if rec["skipped"] else "before start"))
    return
  p64 = p.astype(np.float64)
  nu, npn, ns = np.linalg.norm(u64), np.linalg.norm(p64), np.linalg.norm(s)
  rec["norms"] = [float(nu), float(npn), float(ns)]
  if npn == 0.0:
    if nu != 0.0:
      fail("step %d param %d: preconditioned gradient is zero but the update is not" % (rec["t"], rec["k"]))
    return
  # direction: u is a non-negative multiple of p
  c = float(u64.ravel() @ p64.ravel()) / (npn * npn)
  ddev = float(np.linalg.norm(u64 - c * p64)) / max(nu, 1e-300)
  rec["dir_dev"] = ddev
  if c < 0 or not ddev <= 1e-5:
    fail("step %d param %d: update is not a non-negative multiple of the preconditioned gradient "
         "(c=%.6g, residual %.3e)" % (rec["t"], rec["k"], c, ddev))
  if no_norm:  # grafting NONE: update is the preconditioned gradient itself
    if not rel_dev(u64, p64) <= 1e-6:
      fail("step %d param %d: no grafting, but update != preconditioned gradient" % (rec["t"], rec["k"]))
    return
  # norm:  |u| (|p| + eps) == |s| |p|
  lhs, rhs = nu * (npn + EPS), ns * npn
  ndev = abs(lhs - rhs) / max(rhs, 1e-300)
  rec["norm_dev"] = float(ndev)
  if not ndev <= 1e-5:
    fail("step %d param %d: |update| = %.9g but the graft step has norm %.9g (rel dev %.3e)" %
         (rec["t"], rec["k"], nu, ns, ndev))


def fl(a):
  return [float(x) for x in np.asarray(a, dtype=np.float64).ravel()]


# --------------------------------------------------------------------------------------------------
def case_ds(case, res, fail):
  import jax
  import jax.numpy as jnp
  from precondition import distributed_shampoo as ds
  assert ds._EPSILON == EPS, ds._EPSILON
  gt, mode, start, steps = case["graft"], case["mode"], case["start"], case["steps"]
  shapes = [tuple(s) for s in case["shapes"]]
  rng = common.SplitMix64(case["seed"])
  za = tuple(case["zero_at"]) if case.get("zero_at") else None
  hist = gen_grads(rng, shapes, steps, za, case.get("scale_exps"))
  params = [jnp.zeros(s, jnp.float32) for s in shapes]
  cr = dict(full=0, quant=0).get(mode, case.get("cr", 1))
  kw = dict(block_size=case["block"], beta1=0.0, beta2=case["beta2"],
            diagonal_epsilon=case["deps"], matrix_epsilon=1e-6, weight_decay=0.0,
            start_preconditioning_step=start, preconditioning_compute_steps=1,
            statistics_compute_steps=1, graft_type=ds.GraftingType(gt), nesterov=case.get("nesterov", True),
            batch_axis_name=None, skip_preconditioning_dim_size_gt=case["skip_dim_gt"],
            skip_preconditioning_rank_lt=case["skip_rank_lt"], compression_rank=cr,
            merge_small_dims_block_size=case.get("merge", 4096),
            moving_average_for_momentum=case.get("ema", False))
  if mode == "fd":
    kw.update(frequent_directions=True, reuse_preconditioner=True)
  if mode == "quant":
    kw.update(best_effort_memory_usage_reduction=True, batch_axis_name="batch")
  opt = ds.distributed_shampoo(1.0, **kw)
  state = opt.init(params)
  pres = [ds.Preconditioner(pm, case["block"], case.get("merge", 4096), True,
                            ds.PreconditionerType.ALL, cr) for pm in params]

  def skipped(sh):
    return len(sh) < case["skip_rank_lt"] or any(s > case["skip_dim_gt"] for s in sh)

  if mode == "quant":
    D = 2
    assert jax.local_device_count() >= D
    rep = lambda tree: jax.tree.map(lambda x: jnp.stack([x] * D), tree)
    pstate = rep(state)
    pupd = jax.pmap(lambda g, st: opt.update(g, st, params), axis_name="batch")
  recs = []
  for t in range(steps):
    g = [jnp.asarray(x) for x in hist[t]]
    if mode == "quant":
      upd, pstate = pupd(rep(g), pstate)
      for k in range(len(shapes)):
        if not np.array_equal(np.asarray(upd[k][0]), np.asarray(upd[k][1])):
          fail("step %d param %d: replicas disagree" % (t, k))
      upd = [x[0] for x in upd]
      state = jax.tree.map(lambda x: x[0], pstate)
      count = int(state.count)
    else:
      upd, state = opt.update(g, state, params)
      count = int(state.count)
    if count != t + 1:
      fail("count %d after %d updates" % (count, t + 1))
    for k, sh in enumerate(shapes):
      u = -np.asarray(upd[k], dtype=np.float32)
      sk = skipped(sh)
      before = t < start
      rec = dict(t=t, k=k, skipped=sk, before=before, u=fl(u))
      s = ds_graft_closed_form(gt, [h[k] for h in hist[:t + 1]], case["beta2"], case["deps"])
      p = None
      if not sk:
        pcs = state.stats[k].preconditioners
        pcs = [q.to_float() if hasattr(q, "to_float") else q for q in pcs]
        p = np.asarray(pres[k].preconditioned_grad(g[k], pcs), dtype=np.float32)
        rec["p"] = fl(p)
      exact = gt in (GT_NONE, GT_SGD, GT_SQRT_N)
      if not np.all(np.isfinite(u)):
        fail("step %d param %d: non-finite update" % (t, k))
      else:
        judge_step(rec, u, p, s, grafted=(not before and not sk), no_norm=(gt == GT_NONE), fail=fail,
                   exact_warm=exact)
      recs.append(rec)
  res["hist"] = [[fl(x) for x in h] for h in hist]
  res["recs"] = recs


# --------------------------------------------------------------------------------------------------
def tf_graft_closed_form(graft, hist, beta, eps):
  g = hist[-1].astype(np.float64)
  if graft == "sgd":
    return g
  T = len(hist)
  if beta == 1.0:
    acc = sum(h.astype(np.float64) ** 2 for h in hist)
  else:
    acc = sum((1 - beta) * beta ** (T - 1 - s) * hist[s].astype(np.float64) ** 2 for s in range(T))
  return g / np.sqrt(acc + eps)


def case_tf(case, res, fail):
  import jax
  import jax.numpy as jnp
  from precondition.tearfree import grafting
  from precondition.tearfree import momentum
  from precondition.tearfree import optimizer as tfo
  from precondition.tearfree import second_order
  from precondition.tearfree import shampoo
  from precondition.tearfree import sketchy
  graft, so, start, steps = case["graft"], case["so"], case["start"], case["steps"]
  shapes = [tuple(s) for s in case["shapes"]]
  rng = common.SplitMix64(case["seed"])
  za = tuple(case["zero_at"]) if case.get("zero_at") else None
  hist = gen_grads(rng, shapes, steps, za, case.get("scale_exps"))
  params = {("p%d" % k): jnp.zeros(s, jnp.float32) for k, s in enumerate(shapes)}
  beta = case["beta"] if graft in ("rmsprop", "adafactor") else 0.0
  gopts = grafting.Options(
      grafting_type=grafting.GraftingType(graft), second_moment_decay=beta,
      start_preconditioning_step=start, epsilon=case["eps"],
      skip_preconditioning_any_dim_gt=case["skip_dim_gt"],
      skip_preconditioning_rank1=case["skip_rank1"], min_dim_size_to_factor=2,
      multiply_by_parameter_scale=False, clipping_threshold=1.0)
  if so == "shampoo":
    sopts = second_order.Options(
        merge_dims=case["merge"], second_order_type=second_order.SecondOrderType.SHAMPOO,
        shampoo_options=shampoo.Options(block_size=case["block"], second_moment_decay=0.5))
  else:
    sopts = second_order.Options(
        merge_dims=case["merge"], second_order_type=second_order.SecondOrderType.SKETCHY,
        shampoo_options=None, sketchy_options=sketchy.Options(rank=case["rank"], second_moment_decay=0.5))
  mopts = momentum.Options(ema=False, nesterov=False, momentum_decay=0.0, weight_decay=0.0,
                           weight_decay_after_momentum=True)
  opt = tfo.tearfree(1.0, tfo.TearfreeOptions(gopts, sopts, mopts))
  state = opt.init(params)
  # lock-step direction and (for adafactor) graft oracles
  mask = lambda tree: grafting._mask_skipped(gopts, tree)
  so_tx = second_order.apply(sopts)
  so_state = so_tx.init(params if graft == "none" else mask(params))
  af_tx = grafting._adafactor(gopts) if graft == "adafactor" else None
  af_state = af_tx.init(params) if af_tx else None

  def skipped(sh):
    if graft == "none":
      return False
    return (case["skip_rank1"] and len(sh) <= 1) or any(s > case["skip_dim_gt"] for s in sh)

  recs = []
  for t in range(steps):
    g = {("p%d" % k): jnp.asarray(x) for k, x in enumerate(hist[t])}
    upd, state = opt.update(g, state, params)
    if graft == "none":
      base, so_state = so_tx.update(g, so_state, params)
    else:
      base, so_state = so_tx.update(mask(g), so_state, mask(params))
    if af_tx:
      af_upd, af_state = af_tx.update(g, af_state, params)
    for k, sh in enumerate(shapes):
      name = "p%d" % k
      u = -np.asarray(upd[name], dtype=np.float32)
      sk = skipped(sh)
      before = (t < start) and graft != "none"
      rec = dict(t=t, k=k, skipped=sk, before=before, u=fl(u))
      p = None
      if not sk:
        p = np.asarray(base[name], dtype=np.float32)
        rec["p"] = fl(p)
      if graft == "adafactor":
        s = np.asarray(af_upd[name], dtype=np.float64)
        rec["s"] = fl(s)
      elif graft == "none":
        s = hist[t][k].astype(np.float64)
      else:
        s = tf_graft_closed_form(graft, [h[k] for h in hist[:t + 1]], beta, case["eps"])
      if not np.all(np.isfinite(u)):
        fail("step %d param %d: non-finite update" % (t, k))
        recs.append(rec)
        continue
      grafted = (not before and not sk)
      if grafted and graft != "none" and p is not None and float(np.linalg.norm(p)) > 0:
        # Tearfree rule is exact (no epsilon): |u| == |s|
        nu, ns = float(np.linalg.norm(u.astype(np.float64))), float(np.linalg.norm(s))
        if not abs(nu - ns) <= 1e-5 * max(ns, 1e-300):
          fail("step %d param %d: tearfree |update| %.9g != |graft step| %.9g" % (t, k, nu, ns))
      judge_step(rec, u, p, s, grafted=grafted, no_norm=(graft == "none"), fail=fail,
                 exact_warm=(graft == "sgd"))
      recs.append(rec)
  res["hist"] = [[fl(x) for x in h] for h in hist]
  res["recs"] = recs


def run(payload):
  out = []
  for case in payload["cases"]:
    res = dict(case=case, kind=case["kind"], ok=True, why=[])
    import time
    t0 = time.time()

    def fail(msg, res=res):
      res["ok"] = False
      if len(res["why"]) < 8:
        res["why"].append(msg)

    try:
      if case["kind"] == "ds":
        case_ds(case, res, fail)
      elif case["kind"] == "tf":
        case_tf(case, res, fail)
      else:
        raise ValueError(case["kind"])
    except Exception as e:  # pylint: disable=broad-except
      res["ok"] = False
      res["exc"] = "%s: %s" % (type(e).__name__, str(e)[:300])
      res["why"].append("exception " + res["exc"])
      res["trace"] = traceback.format_exc()[-2500:]
    res["secs"] = round(time.time() - t0, 2)
    out.append(res)
  return dict(results=out)


if __name__ == "__main__":
  common.worker_main(run)
