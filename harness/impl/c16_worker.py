"""Implementation-side driver for C16 (OCO algorithms, float64): runs init/update pairs from
generate_init_update over generated gradient sequences, capturing SVD calls and computing the oracle
values (rsqrt, reciprocal, sqrt, proposed full-matrix inverse roots) that the Coq side verifies."""
import numpy as np

from harness import common
from harness.impl.c09_worker import Capture, fl, gen_history, mat


def safe(fn, x):
  x = np.asarray(x, np.float64)
  with np.errstate(all="ignore"):
    return np.where(x <= 0, 0.0, fn(np.where(x <= 0, 1.0, x)))


def run_case(case, cap):
  import jax.numpy as jnp
  from precondition.oco import algorithms as alg
  rng = common.SplitMix64(case["seed"])
  d, T = case["d"], case["T"]
  name = case["algo"]
  ell = case.get("ell", 0)
  hist = gen_history(rng, d, 1, T, case["hist"], max(1, ell - 1 - case.get("rank_slack", 0)), None)
  hist = [h[:, 0] for h in hist]
  algo = getattr(alg.Algorithm, name)
  hp = alg.HParams(delta=case["delta"], lr=case["lr"], sketch_size=ell, algorithm=algo)
  init, update = alg.generate_init_update((d,), hp)
  # the bound pair is used for an unrelated warm-up sequence first, the way a caller would reuse it for
  # several data sets, handing the state object itself to update (the update functions write into the
  # dict they are given): init() must still return the initial state for the checked sequence (added
  # after a seeded change that built the initial state once at bind time was missed)
  warm = init()
  cap.reset()
  warm = update(warm, jnp.asarray(0.0), jnp.asarray(np.arange(1, d + 1, dtype=np.float64)))
  cap.reset()
  st = init()
  out = dict(case=case, G=[fl(g) for g in hist], n=d, ell=ell)
  delta, lr = float(case["delta"]), float(case["lr"])
  if name == "OGD":
    for g in hist:
      st = update(dict(st), jnp.asarray(0.0), jnp.asarray(g, jnp.float64))
    out.update(w=fl(st["w"]), t=float(st["t"]),
               rv=[float(1.0 / np.sqrt(t + delta)) for t in range(1, T + 1)])
    return out
  if name == "ADA":
    h = np.ones(d) * delta
    rv = []
    for g in hist:
      st = update(dict(st), jnp.asarray(0.0), jnp.asarray(g, jnp.float64))
      h = h + g * g
      rv.append(fl(1.0 / np.sqrt(np.where(h == 0, 1.0, h))))
    out.update(w=fl(st["w"]), h=fl(st["diag_h"]), rv=rv)
    return out
  steps = []
  C = np.zeros((d, d))
  full = []
  w_prev = np.zeros(d)
  for ti, g in enumerate(hist, 1):
    cap.reset()
    st = update(dict(st), jnp.asarray(0.0), jnp.asarray(g, jnp.float64))
    if len(cap.svd) != 1:
      raise RuntimeError("expected one svd call, got %d" % len(cap.svd))
    Bm, (_, s, vt) = cap.svd[0]
    P = np.asarray(st["P"], np.float64)
    e = np.asarray(st["e"], np.float64)
    a = float(st["alpha"])
    if name == "S_ADA":
      inv, inva, fac, aux = safe(lambda x: 1 / np.sqrt(x), a + e * e), float(safe(lambda x: 1 / np.sqrt(x), a)), 1.0, 0.0
    elif name == "ADA_FD":
      with np.errstate(all="ignore"):
        inv = np.where(a + e <= 0, 0.0, e / np.where(a + e <= 0, 1.0, a + e))
      inva, fac, aux = float(safe(lambda x: 1 / x, a)), 1.0, 0.0
    elif name == "RFD_SON":
      inv, inva = safe(lambda x: 1 / x, a + e * e), float(safe(lambda x: 1 / x, a))
      fac, aux = float(1 / np.sqrt(ti * lr)), 0.0
    else:
      inv, inva = safe(lambda x: 1 / x, a + e * e), float(safe(lambda x: 1 / x, a))
      aux = float(np.sqrt(ti))
      fac = float(1 / np.sqrt(aux * lr))
    w = np.asarray(st["w"], np.float64)
    steps.append(dict(g=fl(g), gin=fl(np.asarray(Bm)[-1]), fac=fac, aux=aux, s=fl(s),
                      vt=[fl(vt[j]) for j in range(vt.shape[0])], P=[fl(P[j]) for j in range(P.shape[0])],
                      e=fl(e), alpha=a, w=fl(w), inv=fl(inv), inv_alpha=inva))
    if case.get("lossless"):
      C = C + np.outer(g, g)
      lam, V = np.linalg.eigh(delta * np.eye(d) + C)
      Y = (V * (1.0 / np.sqrt(lam))) @ V.T
      Y = (Y + Y.T) / 2
      full.append(dict(g=fl(g), Y=mat(Y), w=fl(w), rho=float(s[-1])))
    w_prev = w
  out.update(steps=steps, full=full)
  return out


def run(payload):
  import jax
  import jax.numpy as jnp
  cap = Capture()
  cap.install(jnp)
  res = []
  try:
    for case in payload["cases"]:
      try:
        with jax.disable_jit():
          res.append(run_case(case, cap))
      except Exception as e:  # pylint: disable=broad-except
        import traceback
        res.append(dict(case=case, exc="%s: %s" % (type(e).__name__, str(e)[:300]),
                        trace=traceback.format_exc()[-1500:]))
  finally:
    cap.uninstall()
  return dict(results=res)


if __name__ == "__main__":
  common.worker_main(run)
