"""Implementation-side driver for C14: crash / resume through flax serialization.

For one (optimizer configuration, parameter tree, gradient history g_1..g_T):
  * uninterrupted run: states s_0..s_T, updates u_1..u_T (per-leaf shape, dtype and raw bytes);
  * for every crash point k in 0..T: bytes_k = flax.serialization.to_bytes(s_k); a FRESHLY
    constructed optimizer object with the same hyper-parameters (fresh closures, fresh jit cache);
    template = fresh.init(params); restored = from_bytes(template, bytes_k); restored must be
    bitwise s_k (same tree, static metadata, shapes, dtypes, bytes); the continuation
    u'_{k+1}.. and the final state must be bitwise those of the uninterrupted run;
  * determinism: the same update evaluated twice on equal inputs gives bitwise equal results;
  * interleaving: two optimizer objects driven alternately give what they give in isolation;
  * a scan of the optimizer's closures and of precondition's module globals for mutable Python
    objects whose content changes while updates run (evidence for where hidden state could live);
  * which leaves flax serializes (paths, order, shapes, dtypes), for comparison with the model.
Modes: "jit" (jax.jit / pmap of update, traced once per optimizer object), "eager"
(jax.disable_jit: the Python code of update runs on every step, so Python-side state shows)."""
import hashlib
import os
import sys
import types

import numpy as np

from harness import common
from harness.impl import c07_worker as w7


def leaf_digest(x):
  a = np.asarray(x)
  return [list(a.shape), a.dtype.name, hashlib.sha1(a.tobytes()).hexdigest()[:16]]


def tree_digest(tree):
  """per-leaf (shape, dtype, bytes) + the canonical structure signature (node kinds and static
  metadata in canonical form: a static dtype is compared by its numpy name, so jnp.int16 and
  np.dtype('int16') -- which compare equal in a treedef -- are the same)."""
  import jax
  import json
  leaves, _ = jax.tree_util.tree_flatten(tree)
  return dict(leaves=[leaf_digest(l) for l in leaves],
              treedef=hashlib.sha1(json.dumps(w7.sig(tree)).encode()).hexdigest()[:16])


def first_diff(a, b):
  """a, b: tree digests.  None if equal, else a description of the first difference."""
  if len(a["leaves"]) != len(b["leaves"]):
    return "number of leaves differs (%d vs %d)" % (len(a["leaves"]), len(b["leaves"]))
  for i, (x, y) in enumerate(zip(a["leaves"], b["leaves"])):
    if x[0] != y[0]:
      return "leaf %d: shape %s vs %s" % (i, x[0], y[0])
    if x[1] != y[1]:
      return "leaf %d: dtype %s vs %s" % (i, x[1], y[1])
    if x[2] != y[2]:
      return "leaf %d (shape %s, %s): bytes differ" % (i, x[0], x[1])
  if a["treedef"] != b["treedef"]:
    return "tree structure / static metadata differ"
  return None


def state_dict_leaves(sd, path=()):
  """flax state dict -> [(path, shape, dtype)] in the dict's own (insertion) order."""
  out = []
  if isinstance(sd, dict):
    for k, v in sd.items():
      out += state_dict_leaves(v, path + (str(k),))
    return out
  if sd is None:
    return out
  a = np.asarray(sd)
  return [["/".join(path), [int(s) for s in a.shape], a.dtype.name]]


# ----------------------------------------------------------------------------------------------
# scan for mutable Python state reachable from the optimizer's closures / module globals
# ----------------------------------------------------------------------------------------------
def _closure_objects(fn, seen, depth=0):
  """yield (path, obj) for mutable containers reachable through closure cells of fn."""
  out = []
  if depth > 6 or id(fn) in seen:
    return out
  seen.add(id(fn))
  cells = getattr(fn, "__closure__", None) or ()
  names = getattr(getattr(fn, "__code__", None), "co_freevars", ())
  for nm, cell in zip(names, cells):
    try:
      v = cell.cell_contents
    except ValueError:
      continue
    if isinstance(v, (list, dict, set, bytearray)):
      out.append((getattr(fn, "__name__", "?") + "." + nm, v))
    elif isinstance(v, (types.FunctionType, types.MethodType)):
      out += _closure_objects(v, seen, depth + 1)
    elif hasattr(v, "func") and callable(getattr(v, "func", None)):   # functools.partial
      out += _closure_objects(v.func, seen, depth + 1)
  return out


def _module_objects():
  out = []
  for name, mod in list(sys.modules.items()):
    if not (name == "precondition" or name.startswith("precondition.")):
      continue
    for k, v in vars(mod).items():
      if k.startswith("__"):
        continue
      if isinstance(v, (list, dict, set, bytearray)):
        out.append((name + "." + k, v))
  return out


def _fingerprint(objs):
  fp = {}
  for path, o in objs:
    try:
      fp[path] = (len(o), hashlib.sha1(repr(sorted(map(repr, o)) if isinstance(o, (set, dict)) else
                                            repr(o)).encode()).hexdigest()[:12])
    except Exception:  # pylint: disable=broad-except
      fp[path] = (len(o), "unhashable")
  return fp


def mutable_scan(opt):
  objs = []
  for fn in (getattr(opt, "update", None), getattr(opt, "init", None)):
    if fn is not None:
      objs += _closure_objects(fn, set())
  objs += _module_objects()
  return objs


# ----------------------------------------------------------------------------------------------
class Runner:
  """One optimizer object + execution mode; fresh closures and a fresh trace cache."""

  def __init__(self, case, mode):
    self.drv = w7.Driver(dict(case, jit=(mode == "jit")))
    self.mode = mode

  def init(self, params):
    return self.drv.init(params)

  def update(self, g, s, p):
    return self.drv.update(g, s, p)


def make_grads(case, rng, T):
  import jax.numpy as jnp
  import jax

  def leaf(spec):
    n = int(np.prod(spec["shape"])) if spec["shape"] else 1
    vals = np.array([rng.normal() for _ in range(n)], dtype=np.float32)
    return jnp.asarray(vals.reshape(spec["shape"]), dtype=spec.get("dtype", "float32"))

  def build(spec):
    k = spec["k"]
    if k == "leaf":
      return leaf(spec)
    if k == "dict":
      return {key: build(c) for key, c in zip(spec["keys"], spec["ch"])}
    if k == "list":
      return [build(c) for c in spec["ch"]]
    if k == "tuple":
      return tuple(build(c) for c in spec["ch"])
    raise ValueError(k)
  return [build(case["tree"]) for _ in range(T)]


def run_case(case):
  import jax
  from flax import serialization
  res = dict(id=case.get("id"), checks=[], why=[])
  mode = case.get("exec", "jit")
  T = int(case.get("T", 6))
  rng = common.SplitMix64(int(case.get("seed", 1)))
  params = make_grads(case, rng, 1)[0]
  grads = make_grads(case, rng, T)

  def fail(kind, msg, **kw):
    res["why"].append(dict(kind=kind, msg=msg, **kw))

  base = Runner(case, mode)
  scan0 = mutable_scan(base.drv.opt)
  fp0 = _fingerprint(scan0)
  s = base.init(params)
  res["init_sig"] = w7.sig(s)
  states = [s]
  upds = []
  for t in range(T):
    u, s = base.update(grads[t], s, params)
    jax.block_until_ready((u, s))
    states.append(s)
    upds.append(u)
  sd = [tree_digest(x) for x in states]
  ud = [tree_digest(x) for x in upds]
  fp1 = _fingerprint(mutable_scan(base.drv.opt))
  res["mutable_changed"] = sorted(k for k in fp1 if fp0.get(k) != fp1[k])
  res["mutable_seen"] = sorted(fp1)[:40]
  res["checks"].append("uninterrupted")

  # which leaves does flax serialize?  (state after the last update)
  res["flax_leaves"] = state_dict_leaves(serialization.to_state_dict(states[-1]))
  res["final_sig"] = w7.sig(states[-1])

  # determinism: same update twice on equal inputs, same optimizer object
  for t in sorted(set([0, T // 2, T - 1])):
    u2, s2 = base.update(grads[t], states[t], params)
    d = first_diff(tree_digest(u2), ud[t]) or first_diff(tree_digest(s2), sd[t + 1])
    if d:
      fail("nondeterministic", "update %d evaluated twice on equal inputs: %s" % (t + 1, d), step=t + 1)
  res["checks"].append("determinism")

  # crash / resume at every k
  ks = case.get("crash_points") or list(range(T + 1))
  for k in ks:
    blob = serialization.to_bytes(states[k])
    fresh = Runner(case, mode)
    template = fresh.init(params)
    try:
      restored = serialization.from_bytes(template, blob)
    except Exception as e:  # pylint: disable=broad-except
      fail("restore-failed", "from_bytes at crash point %d: %s: %s" % (k, type(e).__name__, str(e)[:200]), k=k)
      continue
    d = first_diff(tree_digest(restored), sd[k])
    if d:
      fail("roundtrip", "state restored at crash point %d is not the serialized state: %s" % (k, d), k=k)
      continue
    st = restored
    bad = None
    for t in range(k, T):
      u, st = fresh.update(grads[t], st, params)
      d = first_diff(tree_digest(u), ud[t])
      if d:
        bad = "update %d after resuming at %d: %s" % (t + 1, k, d)
        break
      d = first_diff(tree_digest(st), sd[t + 1])
      if d:
        bad = "state after update %d, resumed at %d: %s" % (t + 1, k, d)
        break
    if bad:
      fail("resume-differs", bad, k=k)
  res["checks"].append("resume@%s" % ks)

  # interleaving two optimizer objects -- A on this case's tree, B with the same hyper-parameters on
  # a DIFFERENT tree and history -- against their isolated runs (nothing may leak between calls,
  # e.g. through the list mutated by `exponents.extend(...)` in _pmap_compute_preconditioners)
  if case.get("interleave", True):
    caseb = dict(case, tree=case.get("tree_b") or {"k": "dict", "keys": ["a", "b"], "ch": [
        {"k": "leaf", "shape": [2, 5]}, {"k": "leaf", "shape": [7]}]})
    rngb = common.SplitMix64(int(case.get("seed", 1)) + 17)
    pb = make_grads(caseb, rngb, 1)[0]
    gb = make_grads(caseb, rngb, 3)
    a, b = Runner(case, mode), Runner(caseb, mode)
    sa, sb = a.init(params), b.init(pb)
    n = min(T, 3)
    for t in range(n):
      ua, sa = a.update(grads[t], sa, params)
      ub, sb = b.update(gb[t], sb, pb)
      d = first_diff(tree_digest(ua), ud[t]) or first_diff(tree_digest(sa), sd[t + 1])
      if d:
        fail("interleave", "optimizer A interleaved with B differs from A alone at update %d: %s" % (t + 1, d),
             step=t + 1)
        break
    c = Runner(caseb, mode)
    sc = c.init(pb)
    for t in range(n):
      uc, sc = c.update(gb[t], sc, pb)
    d = first_diff(tree_digest(sc), tree_digest(sb))
    if d:
      fail("interleave", "optimizer B (other tree) interleaved with A differs from B alone: %s" % d)
    res["checks"].append("interleave")

  # blob for the cross-process resume (hex), crash point T//2
  if case.get("emit_blob"):
    k = T // 2
    res["blob_k"] = k
    res["blob"] = serialization.to_bytes(states[k]).hex()
    res["tail_digests"] = dict(upds=ud[k:], final=sd[T])
  return res


def resume_case(case):
  """separate process: restore the blob produced by another process and continue."""
  import jax
  from flax import serialization
  mode = case.get("exec", "jit")
  T = int(case.get("T", 6))
  rng = common.SplitMix64(int(case.get("seed", 1)))
  params = make_grads(case, rng, 1)[0]
  grads = make_grads(case, rng, T)
  k = case["blob_k"]
  fresh = Runner(case, mode)
  template = fresh.init(params)
  st = serialization.from_bytes(template, bytes.fromhex(case["blob"]))
  ud = []
  for t in range(k, T):
    u, st = fresh.update(grads[t], st, params)
    ud.append(tree_digest(u))
  why = []
  for i, (a, b) in enumerate(zip(ud, case["tail_digests"]["upds"])):
    d = first_diff(a, b)
    if d:
      why.append(dict(kind="resume-differs-cross-process",
                      msg="update %d after resuming at %d in a new process: %s" % (k + i + 1, k, d), k=k))
      break
  if not why:
    d = first_diff(tree_digest(st), case["tail_digests"]["final"])
    if d:
      why.append(dict(kind="resume-differs-cross-process",
                      msg="final state after resuming at %d in a new process: %s" % (k, d), k=k))
  return dict(id=case.get("id"), why=why, checks=["cross-process resume@%d" % k])


def run(payload):
  import warnings
  warnings.filterwarnings("ignore")
  import logging
  logging.disable(logging.WARNING)
  try:
    from absl import logging as alog
    alog.set_verbosity(alog.FATAL)
  except Exception:  # pylint: disable=broad-except
    pass
  import contextlib
  import io
  import time
  import traceback
  out = []
  for case in payload["cases"]:
    t0 = time.time()
    buf = io.StringIO()
    try:
      with contextlib.redirect_stdout(buf):
        r = resume_case(case) if case.get("resume") else run_case(case)
    except Exception as e:  # pylint: disable=broad-except
      info = w7.classify_exception(e)
      r = dict(id=case.get("id"), why=[dict(kind="exception", msg="%s: %s @ %s" % (
          info["type"], info["msg"], info["inner"] or info["where"]))], checks=[],
               trace=traceback.format_exc()[-1500:])
    r["secs"] = round(time.time() - t0, 2)
    out.append(r)
  return dict(results=out)


if __name__ == "__main__":
  common.worker_main(run)
