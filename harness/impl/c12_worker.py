"""Implementation-side driver for C12: runs precondition.sm3.sm3 through its public
init/update API on given gradient histories and reports, per step, the accumulators
(state.stats.diagonal_statistics), the update and the de-quantized momentum (exact float values)."""
import numpy as np

from harness import common


def _fl(x):
  return [float(v) for v in np.asarray(x, dtype=np.float64).ravel()]


def run(payload):
  import jax
  import jax.numpy as jnp
  from precondition import sm3

  out = []
  for case in payload["cases"]:
    r = dict(id=case["id"])
    try:
      shape = tuple(case["shape"])
      opt = sm3.sm3(case["lr"], beta1=case["beta1"], beta2=case["beta2"],
                    diagonal_epsilon=case["eps"], weight_decay=case["wd"],
                    normalize_grads=case["normalize"])
      params = jnp.asarray(np.asarray(case["params"], np.float32).reshape(shape))
      state = opt.init(params)
      update = jax.jit(opt.update) if case.get("jit") else opt.update
      r["init_acc"] = [_fl(a) for a in state.stats.diagonal_statistics]
      r["init_count"] = int(state.count)
      steps = []
      for g in case["grads"]:
        g32 = jnp.asarray(np.asarray(g, np.float32).reshape(shape))
        rec = {}
        if case["normalize"]:
          # the normalisation line of update_fn, recomputed with the same jnp expression, so the
          # model receives the gradient the accumulators are actually built from
          rec["gn"] = _fl(g32 / (jnp.linalg.norm(g32) + 1e-16))
        rec["mom_prev"] = _fl(state.stats.diagonal_momentum.to_float())
        upd, state = update(g32, state, params)
        accs = state.stats.diagonal_statistics
        rec["acc"] = [_fl(a) for a in accs]
        rec["acc_shapes"] = [list(map(int, a.shape)) for a in accs]
        rec["acc_dtype"] = str(accs[0].dtype) if accs else ""
        rec["upd"] = _fl(upd)
        rec["upd_shape"] = list(map(int, upd.shape))
        rec["count"] = int(state.count)
        steps.append(rec)
      r["steps"] = steps
    except Exception as e:  # pylint: disable=broad-except
      r["exc"] = "%s: %s" % (type(e).__name__, str(e)[:300])
    out.append(r)
  return dict(results=out)


if __name__ == "__main__":
  common.worker_main(run)
