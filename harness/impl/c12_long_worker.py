"""Implementation-side driver for the long-history probe of C12: sm3 through its public API for hundreds
of steps on small tensors (float32 and bfloat16 parameters / gradients); reports, at chosen steps, the
smallest covering accumulator value per coordinate and the exact b-discounted sum of squared gradients
(float64, of the gradient values as the optimizer receives them)."""
import itertools

import numpy as np

from harness import common


def run(payload):
  import jax
  import jax.numpy as jnp
  from precondition import sm3
  out = []
  for case in payload["cases"]:
    r = dict(id=case["id"])
    try:
      shape = tuple(case["shape"])
      dt = getattr(jnp, case["dtype"])
      opt = sm3.sm3(0.125, beta1=0.0, beta2=case["beta2"], diagonal_epsilon=1e-10)
      params = jnp.ones(shape, dt)
      state = opt.init(params)
      upd = jax.jit(opt.update)
      rng = common.SplitMix64(case["seed"])
      exact = np.zeros(shape, np.float64)
      b2 = case["beta2"]
      w = 1.0 if b2 == 1.0 else 1.0 - b2
      worst = None
      for t in range(case["T"]):
        if case["hist"] == "const":
          g = jnp.ones(shape, dt)
        else:
          g = jnp.asarray(np.array([rng.normal() for _ in range(int(np.prod(shape)))], np.float32).reshape(shape)).astype(dt)
        gq = np.asarray(g.astype(jnp.float32), np.float64)
        exact = b2 * exact + w * gq * gq
        _, state = upd(g, state, params)
        if (t + 1) % case["every"] == 0 or t + 1 == case["T"]:
          accs = [np.asarray(a.astype(jnp.float32), np.float64) for a in state.stats.diagonal_statistics]
          for ix in itertools.product(*[range(d) for d in shape]):
            cover = min(accs[k][ix[k]] for k in range(len(shape)))
            rel = (exact[ix] - cover) / max(exact[ix], 1e-300)
            if worst is None or rel > worst["rel"]:
              worst = dict(step=t + 1, index=list(ix), cover=float(cover), exact=float(exact[ix]), rel=float(rel))
      r["worst"] = worst
      r["acc_dtype"] = str(state.stats.diagonal_statistics[0].dtype)
    except Exception as e:  # pylint: disable=broad-except
      r["exc"] = "%s: %s" % (type(e).__name__, str(e)[:300])
    out.append(r)
  return dict(results=out)


if __name__ == "__main__":
  common.worker_main(run)
