"""Implementation-side driver for C06: runs the real shape transformations on index-valued
(arange) tensors and reports (a) raw outputs for comparison with the Coq model and (b) the
property verdicts evaluated directly on the implementation."""
import itertools
import math

import numpy as np

from harness import common


def _np(x):
  return np.asarray(x)


def run(payload):
  import jax
  import jax.numpy as jnp
  from precondition import distributed_shampoo as ds
  from precondition.tearfree import reshaper as tfr
  from precondition.tearfree import shampoo as tfs

  out = []
  reshapers = {}
  for case in payload["cases"]:
    kind = case["kind"]
    r = dict(kind=kind, case=case, ok=True, why=[])

    def fail(msg):
      r["ok"] = False
      r["why"].append(msg)

    try:
      if kind == "merge":
        shape, m = case["shape"], case["merge"]
        res = [int(x) for x in ds.merge_small_dims(shape, m)]
        r["out"] = res
        # property, directly on the implementation
        if math.prod(res) != math.prod(shape):
          fail("element count changed")
        if res != [1] and any(x <= 1 for x in res):
          fail("unit dimension survives")
        for x in res:
          if x > m and x not in shape:
            fail("merged dim %d exceeds limit %d" % (x, m))
        # order: reshape must be a pure regrouping -> row-major reshape is always that; check
        # that the result is the product list of a contiguous grouping
        i, okg = 0, True
        for x in res:
          p = 1
          while i < len(shape) and (p < x or shape[i] == 1):
            p *= shape[i]
            i += 1
            if p == x:
              break
          if p != x:
            okg = False
        if res != [1] and not okg:
          fail("not a contiguous grouping")
      elif kind == "partition":
        shape, b = case["shape"], case["block"]
        n = math.prod(shape)
        t = jnp.arange(n, dtype=jnp.int32).reshape(shape)
        bp = ds.BlockPartitioner(t, b)
        ss = [[int(x) for x in s] for s in bp.split_sizes()]
        r["split_sizes"] = ss
        r["splits"] = [[int(i), [int(x) for x in ind]] for (i, ind) in bp._splits]
        parts = bp.partition(t)
        r["block_shapes"] = [list(map(int, p.shape)) for p in parts]
        back = bp.merge_partitions(list(parts))
        if tuple(back.shape) != tuple(shape) or not bool(jnp.all(back == t)):
          fail("merge_partitions(partition(t)) != t")
        # contiguity + order: block k (itertools.product order) is the sub-tensor at offsets
        tn = np.asarray(t)
        offs = [np.concatenate([[0], np.cumsum(s)]) for s in ss]
        expect = []
        for idx in itertools.product(*[range(len(s)) for s in ss]):
          sl = tuple(slice(int(offs[a][k]), int(offs[a][k + 1])) for a, k in enumerate(idx))
          expect.append(tn[sl])
        if len(expect) != len(parts):
          fail("number of blocks %d != product of split counts %d" % (len(parts), len(expect)))
        else:
          for e, p in zip(expect, parts):
            if e.shape != tuple(p.shape) or not np.array_equal(e, np.asarray(p)):
              fail("block is not the contiguous sub-tensor in product order")
              break
        for a, s in enumerate(ss):
          if sum(s) != shape[a] or any(x < 1 for x in s):
            fail("split sizes do not cover dimension")
          if b > 0 and any(x > b for x in s) and shape[a] > b:
            fail("block larger than block size")
          if 0 < b < shape[a] and len(s) != -(-shape[a] // b):
            fail("block count != ceil(d/b)")
        if n <= 64:
          r["blocks_flat"] = [[int(x) for x in np.asarray(p).ravel()] for p in parts]
      elif kind == "precond":
        shape, b, m = case["shape"], case["block"], case["merge"]
        ptype, cr = case["ptype"], case["cr"]
        n = math.prod(shape)
        g = jnp.arange(1, n + 1, dtype=jnp.float32).reshape(shape)
        pt = {1: ds.PreconditionerType.ALL, 2: ds.PreconditionerType.INPUT,
              3: ds.PreconditionerType.OUTPUT}[ptype]
        pc = ds.Preconditioner(g, b, m, True, pt, cr)
        r["transformed"] = [int(x) for x in pc._transformed_shape]
        r["split_sizes"] = [[int(x) for x in s] for s in pc._partitioner.split_sizes()]
        shapes = [[int(x) for x in s] for s in pc.shapes_for_preconditioners()]
        r["shapes"] = shapes
        # a blocked parameter never announces a preconditioner larger than the block size
        if b > 0 and any(s[0] > b for s in shapes):
          fail("announced preconditioner %s is larger than block_size %d" % (
              [s for s in shapes if s[0] > b][0], b))
        r["exponent"] = int(pc.exponent_for_preconditioner())
        spd = [bool(x) for x in pc.should_precondition_dims()]
        r["should"] = spd
        # announced vs produced: statistics actually produced from a gradient
        stats0 = [jnp.zeros((s[0], s[0]), jnp.float32) for s in shapes]
        try:
          new_stats = pc.updated_statistics_from_grad(stats0, g, 0.0, 1.0)
          r["stat_shapes"] = [list(map(int, s.shape)) for s in new_stats]
          if [list(s.shape) for s in new_stats] != [[s[0], s[0]] for s in shapes]:
            fail("announced preconditioner shapes differ from statistics produced")
        except Exception as e:  # pylint: disable=broad-except
          r["stat_error"] = type(e).__name__
          fail("updated_statistics_from_grad raised %s" % type(e).__name__)
        # identity preconditioning (uncompressed only: compressed ones are packed)
        if cr == 0:
          eyes = [jnp.eye(s[0], dtype=jnp.float32) for s in shapes]
          try:
            pg = pc.preconditioned_grad(g, eyes)
            r["identity_ok"] = bool(pg.shape == g.shape and jnp.all(pg == g))
            if not r["identity_ok"]:
              fail("identity preconditioners changed the gradient")
          except Exception as e:  # pylint: disable=broad-except
            r["identity_error"] = type(e).__name__
            fail("preconditioned_grad raised %s" % type(e).__name__)
      elif kind == "blockify":
        shape, b = case["shape"], case["block"]
        n = math.prod(shape)
        x = jnp.arange(n, dtype=jnp.int32).reshape(shape)
        meta = tfs._blocks_metadata(tfs.Options(block_size=b), shape, "p")
        r["meta"] = dict(block_sizes=[int(v) for v in meta.block_sizes],
                         num_blocks=int(meta.num_blocks),
                         large_axes=[int(v) for v in meta.large_axes],
                         blocks_per_large_axis=[int(v) for v in meta.blocks_per_large_axis],
                         blocks_axis=int(meta.blocks_axis))
        bx = tfs._blockify(x, meta)
        r["blocked_shape"] = list(map(int, bx.shape))
        back = tfs._deblockify(bx, meta)
        if n <= 256:
          # flat contents for the tensor-level Coq model (C06.BlockifyModel)
          r["blocked_flat"] = [int(v) for v in np.asarray(bx).ravel()]
          r["deblocked_shape"] = list(map(int, back.shape))
          r["deblocked_flat"] = [int(v) for v in np.asarray(back).ravel()]
        if tuple(back.shape) != tuple(shape) or not bool(jnp.all(back == x)):
          fail("_deblockify(_blockify(x)) != x")
        # each block is the contiguous sub-tensor; blocks enumerated row-major over large axes
        xn, bxn = np.asarray(x), np.asarray(bx)
        la = meta.large_axes
        if math.prod(bxn.shape) != n:
          fail("blockify changed element count")
        counts = meta.blocks_per_large_axis
        for k, idx in enumerate(itertools.product(*[range(c) for c in counts])):
          sl = [slice(None)] * len(shape)
          for a, i in zip(la, idx):
            sl[a] = slice(i * b, (i + 1) * b)
          blk = np.take(bxn, k, axis=meta.blocks_axis)
          if blk.shape != xn[tuple(sl)].shape or not np.array_equal(blk, xn[tuple(sl)]):
            fail("block %d is not the contiguous sub-tensor" % k)
            break
        if any(d > b for d in meta.block_sizes):
          fail("block size exceeded")
      elif kind == "reshaper":
        shape, b, m = case["shape"], case["block"], case["merge"]
        n = math.prod(shape)
        opts = tfr.Options(merge_dims=m, block_size=b)
        p = jnp.zeros(shape, jnp.float32)
        sh = tfr._derive_shapes(opts, p)
        r["shapes"] = dict(original=[int(v) for v in sh.original_shape],
                           merged=[int(v) for v in sh.merged_shape],
                           padded=[int(v) for v in sh.padded_shape])
        x = jnp.arange(1, n + 1, dtype=jnp.int32).reshape(shape)
        # one merge / unmerge transformation per option set, reused for every tensor shape of the run
        # (they are stateless functions of the options; added after a seeded change that memoised the
        # derived shapes per transformation object, keyed by tree structure only, was missed)
        if (m, b) not in reshapers:
          reshapers[(m, b)] = (tfr.merge(opts), tfr.unmerge(opts))
        mt, ut = reshapers[(m, b)]
        mx, _ = mt.update({"w": x}, mt.init({"w": p}), {"w": p})
        r["merged_shape_actual"] = list(map(int, mx["w"].shape))
        bk, _ = ut.update(mx, ut.init({"w": p}), {"w": p})
        if int(np.asarray(mx["w"]).size) <= 128:
          # flat contents for the tensor-level Coq model (C06.BlockifyModel)
          r["merged_flat"] = [int(v) for v in np.asarray(mx["w"]).ravel()]
          r["unmerged_shape"] = list(map(int, bk["w"].shape))
          r["unmerged_flat"] = [int(v) for v in np.asarray(bk["w"]).ravel()]
        if tuple(bk["w"].shape) != tuple(shape) or not bool(jnp.all(bk["w"] == x)):
          fail("unmerge(merge(x)) != x")
        mxn = np.asarray(mx["w"])
        if list(mxn.shape) != (sh.padded_shape if b else sh.merged_shape):
          fail("merged tensor shape differs from derived padded shape")
        # real entries unchanged and in order, padding zero
        core = mxn[tuple(slice(0, d) for d in sh.merged_shape)]
        if not np.array_equal(core.ravel(), np.asarray(x).ravel()):
          fail("merge/pad reordered or lost entries")
        if int(np.count_nonzero(mxn)) != n:
          fail("padding is not zero")
        for pd, md in zip(sh.padded_shape, sh.merged_shape):
          if b and md >= b and (pd % b != 0 or not (md <= pd < md + b)):
            fail("padded dim not the next multiple of the block size")
          if b and md < b and pd != md:
            fail("small dim padded")
      else:
        raise ValueError(kind)
    except Exception as e:  # pylint: disable=broad-except
      r["ok"] = False
      r["exc"] = "%s: %s" % (type(e).__name__, str(e)[:200])
    out.append(r)
  return dict(results=out)


if __name__ == "__main__":
  common.worker_main(run)
