"""Implementation-side driver for C13 (device-count invariance).

Case kinds
  batch     : real distributed_shampoo.batch() on tagged arrays            -> shape + flat data / raised
  unbatch   : real distributed_shampoo.unbatch() on an arange array       -> list of (shape, data)
  roundtrip : pad (-N % D) + batch + per-replica f + stack + unbatch + first N, all with the real
              batch()/unbatch(); reports the tag layout and the property verdict
  pmap      : jax.pmap of the optimizer's init/update on D forced host devices for every D in
              case['Ds'] (first entry is the reference, normally 1); every leaf of updates and state
              on every device is compared BITWISE with the reference; batch() calls are recorded
  sharded   : shard_optimizer_states=True, num_devices_for_pjit=D, run eagerly under a Mesh of D
              devices; updates / local stats / the first N global rows are compared bitwise across D
"""
import hashlib
import traceback

import numpy as np

from harness import common


def _normal_tree(rng, shapes, scale=1.0):
  import jax.numpy as jnp
  out = {}
  for i, s in enumerate(shapes):
    n = int(np.prod(s)) if len(s) else 1
    vals = np.array([rng.normal() * scale for _ in range(n)], dtype=np.float32).reshape(s)
    out["p%02d" % i] = jnp.asarray(vals)
  return out


def _leaf_records(tree):
  """[(path, np.ndarray)] for every array leaf."""
  import jax
  flat, _ = jax.tree_util.tree_flatten_with_path(tree)
  return [(jax.tree_util.keystr(p), np.asarray(v)) for p, v in flat]


def _sig(a):
  return (str(a.dtype), tuple(a.shape), a.tobytes())


def _leaf_class(path, dtype):
  if "training_metrics" in path:
    return "metrics"
  if dtype.startswith("float"):
    return "float"
  if path.endswith(".quantized") or ".quantized" in path:
    return "qint"
  return "int"


def _compare(ref, cur):
  """Bitwise comparison of two [(path, sig)] lists.  Returns a dict:
     n        number of leaves whose bits differ
     hard     number of structural mismatches (leaf count, path, dtype, shape, non-finite, exact
              integer leaves such as count)
     float_rel  max over float (non-metric) leaves of max|a-b| / max|ref|
     qint_abs   max absolute difference over quantized integer leaves
     metrics_n  number of differing diagnostic (training_metrics) leaves
     first    up to 8 descriptions."""
  res = dict(n=0, hard=0, float_rel=0.0, qint_abs=0, metrics_n=0, first=[])

  def note(msg):
    res["n"] += 1
    if len(res["first"]) < 8:
      res["first"].append(msg)

  if len(ref) != len(cur):
    note("number of leaves %d != %d" % (len(cur), len(ref)))
    res["hard"] += 1
  for (p1, s1), (p2, s2) in zip(ref, cur):
    if p1 == p2 and s1 == s2:
      continue
    if p1 != p2 or s1[:2] != s2[:2]:
      note("%s: path/dtype/shape %s vs %s %s" % (p2, s2[:2], p1, s1[:2]))
      res["hard"] += 1
      continue
    cls = _leaf_class(p2, s1[0])
    x1 = np.frombuffer(s1[2], dtype=s1[0]).astype(np.float64)
    x2 = np.frombuffer(s2[2], dtype=s2[0]).astype(np.float64)
    if not (np.all(np.isfinite(x1)) and np.all(np.isfinite(x2))):
      note("%s: non-finite values differ" % p2)
      res["hard"] += 1
      continue
    d = float(np.max(np.abs(x1 - x2))) if x1.size else 0.0
    if cls == "metrics":
      res["metrics_n"] += 1
      note("%s: diagnostic differs by %.3g" % (p2, d))
    elif cls == "int":
      res["hard"] += 1
      note("%s: integer leaf differs by %g" % (p2, d))
    elif cls == "qint":
      res["qint_abs"] = max(res["qint_abs"], d)
      note("%s: quantized integer leaf differs by %g" % (p2, d))
    else:
      scale = float(np.max(np.abs(x1))) if x1.size else 0.0
      rel = d / scale if scale > 0 else float("inf")
      res["float_rel"] = max(res["float_rel"], rel)
      note("%s: max |diff| %.3g (rel %.3g)" % (p2, d, rel))
  return res


def install_surrogate_root(ds, jnp):
  """Replace the per-statistic root by an ELEMENTWISE, exactly rounded surrogate (no reductions,
  only multiplications by powers of two and additions in a fixed order): its bits cannot depend on
  how XLA vectorises a batch, so any cross-device-count difference is a routing difference
  (wrong statistic / exponent / padding_start / slot).  Returns a restore() callable."""
  orig_root, orig_low = ds.matrix_inverse_pth_root, ds._low_rank_root  # pylint: disable=protected-access

  def _full(matrix, p, padding_start):
    x = matrix.astype(jnp.float32)
    n = matrix.shape[0]
    row = jnp.arange(n, dtype=jnp.float32)
    pf = jnp.asarray(p).astype(jnp.float32)
    ps = jnp.asarray(n if padding_start is None else padding_start).astype(jnp.float32)
    out = (x * 0.5 + pf * 0.25) + (jnp.eye(n, dtype=jnp.float32) * (1.0 + ps * 0.125)
                                   + row[:, None] * 0.015625)
    # a statistic whose first diagonal entry exceeds 2^20 "fails" (error 1 > every threshold used):
    # lets a history make SOME roots of a tree fail while the others succeed, still elementwise
    metrics = ds.TrainingMetrics(
        inverse_pth_root_errors=pf * 0.0009765625 + jnp.where(x[0, 0] > 1048576.0, 1.0, 0.0),
        inverse_pth_root_iters=ps,
        final_error_ratio=x[0, 0] * 0.5,
        max_eigen_value=x[n - 1, n - 1] * 2.0)
    return out, metrics

  def surrogate_root(matrix, p, *args, padding_start=None, prev=None, **kwargs):
    del args, kwargs, prev
    return _full(matrix, p, padding_start)

  def surrogate_low_rank(matrix, p, compression_rank=0, *args, padding_start=None, prev=None,
                         **kwargs):
    del args, kwargs, prev
    out, metrics = _full(matrix, p, padding_start)
    return out[:, :abs(compression_rank) + 2], metrics

  ds.matrix_inverse_pth_root = surrogate_root
  ds._low_rank_root = surrogate_low_rank  # pylint: disable=protected-access

  def restore():
    ds.matrix_inverse_pth_root = orig_root
    ds._low_rank_root = orig_low  # pylint: disable=protected-access
  return restore


def _make_kw(ds, kw):
  kw = dict(kw)
  if "graft_type" in kw:
    kw["graft_type"] = getattr(ds.GraftingType, kw["graft_type"])
  return kw


def case_batch(ds, jnp, c):
  n, D, shape = c["n"], c["D"], c["shape"]
  size = int(np.prod(shape)) if shape else 1
  items = [(i * 1000 + np.arange(size)).reshape(shape).astype(np.int32) for i in range(n)]
  try:
    out = np.asarray(ds.batch(items, D))
    return dict(raised=False, oshape=[int(x) for x in out.shape],
                odata=[int(x) for x in out.ravel()])
  except Exception as e:  # pylint: disable=broad-except
    return dict(raised=True, exc="%s: %s" % (type(e).__name__, str(e)[:120]), oshape=[], odata=[])


def case_unbatch(ds, jnp, c):
  b1, b2, shape = c["b1"], c["b2"], c["shape"]
  full = [b1, b2] + list(shape)
  a = jnp.arange(int(np.prod(full)), dtype=jnp.int32).reshape(full)
  try:
    res = ds.unbatch(a)
    return dict(raised=False, out=[[[int(x) for x in np.asarray(v).shape],
                                    [int(x) for x in np.asarray(v).ravel()]] for v in res])
  except Exception as e:  # pylint: disable=broad-except
    return dict(raised=True, exc="%s: %s" % (type(e).__name__, str(e)[:120]), out=[])


def case_roundtrip(ds, jnp, c):
  """The pipeline of _pmap_compute_preconditioners re-enacted with the real batch/unbatch on
  tagged items: f(x) = 2x+1 stands for the vmapped root; replica r takes all[r]."""
  N, D, shape = c["N"], c["D"], c["shape"]
  size = int(np.prod(shape)) if shape else 1
  items = [np.full(shape, i, np.int32) for i in range(N)]
  to_pad = -N % D
  items = items + [np.full(shape, -1, np.int32) for _ in range(to_pad)]
  r = dict(ok=True, why=[])
  try:
    allx = ds.batch(items, D)
    a = np.asarray(allx)
    r["layout"] = [[int(a[i, j].ravel()[0]) for j in range(a.shape[1])] for i in range(a.shape[0])]
    if a.shape[0] != D:
      r["ok"] = False
      r["why"].append("leading axis %d != num_devices %d" % (a.shape[0], D))
    per = [2 * allx[rep] + 1 for rep in range(a.shape[0])]      # what each replica computes
    gathered = jnp.stack(per)                                  # all_gather, axis-index order
    flat = ds.unbatch(gathered)
    kept = flat[:N]                                            # zip against N original shapes
    got = [int(np.asarray(v).ravel()[0]) for v in kept]
    r["kept"] = got
    r["kept_shapes"] = [[int(x) for x in np.asarray(v).shape] for v in kept]
    if got != [2 * i + 1 for i in range(N)]:
      r["ok"] = False
      r["why"].append("first N results are not f of the N statistics in order")
    if any(int(np.asarray(v).size) != size for v in kept):
      r["ok"] = False
      r["why"].append("element count of an item changed")
  except Exception as e:  # pylint: disable=broad-except
    r["ok"] = False
    r["exc"] = "%s: %s" % (type(e).__name__, str(e)[:160])
    r["why"].append("exception")
  return r


def _count_stats(ds, jax, state):
  ps = jax.tree.leaves(state.stats, is_leaf=lambda x: isinstance(x, ds.ParameterStats))
  return [len(p.statistics) for p in ps]


def case_pmap(ds, jax, jnp, c):
  rng = common.SplitMix64(c["seed"])
  shapes = [tuple(s) for s in c["shapes"]]
  params = _normal_tree(rng, shapes)
  steps = c.get("steps", 3)
  grads = [_normal_tree(rng, shapes) for _ in range(steps)]
  if c.get("reject_leaf") is not None:
    # from step 1 on one leaf's gradients are 2^12 times larger: its statistics cross the surrogate's
    # failure bound, so its roots are rejected (old preconditioner kept) while the other leaves' are
    # accepted -- which statistic an error belongs to must not depend on the device count
    names = sorted(grads[0].keys()) if isinstance(grads[0], dict) else None
    for t in range(1, steps):
      if names is not None:
        k = names[c["reject_leaf"] % len(names)]
        grads[t] = dict(grads[t], **{k: grads[t][k] * 4096.0})
      else:
        i = c["reject_leaf"] % len(grads[t])
        grads[t] = type(grads[t])(g * 4096.0 if j == i else g for j, g in enumerate(grads[t]))
  kw = _make_kw(ds, c["kw"])
  out = dict(runs={}, ok=True, why=[])
  ref = None
  orig_batch = ds.batch
  restore = install_surrogate_root(ds, jnp) if c.get("root") == "surrogate" else (lambda: None)
  for D in c["Ds"]:
    calls = []

    def rec_batch(x, num_devices, _calls=calls):
      res = orig_batch(x, num_devices)
      ints = None
      if all(isinstance(v, (int, np.integer)) for v in x):
        ints = [int(v) for v in x]
      _calls.append(dict(n=len(x), D=int(num_devices), dims=[int(res.shape[0]), int(res.shape[1])],
                         ints=ints))
      return res

    run = dict(D=D)
    try:
      ds.batch = rec_batch
      opt = ds.distributed_shampoo(c.get("lr", 0.1), c["block_size"], batch_axis_name="batch", **kw)
      devs = jax.devices()[:D]
      if len(devs) != D:
        raise RuntimeError("only %d devices" % len(devs))
      rep = lambda t: jax.tree.map(lambda x: jnp.stack([x] * D), t)  # pylint: disable=cell-var-from-loop
      init = jax.pmap(opt.init, axis_name="batch", devices=devs)
      upd = jax.pmap(opt.update, axis_name="batch", devices=devs)
      rparams = rep(params)
      st = init(rparams)
      hist = [("init", st)]
      for t, g in enumerate(grads):
        u, st = upd(rep(g), st, rparams)
        hist.append(("upd%d" % t, u))
        hist.append(("state%d" % t, st))
      run["nstats"] = _count_stats(ds, jax, jax.tree.map(lambda x: x[0], st))
      recs = []
      for name, tree in hist:
        for path, arr in _leaf_records(tree):
          recs.append((name + path, arr))
      run["nleaves"] = len(recs)
      # all devices must hold the same bits
      per_dev_bad = []
      dev0 = []
      for path, arr in recs:
        if arr.shape[0] != D:
          per_dev_bad.append(path + " leading axis %d" % arr.shape[0])
          continue
        a0 = arr[0]
        dev0.append((path, _sig(a0)))
        for d in range(1, D):
          if _sig(arr[d]) != _sig(a0):
            per_dev_bad.append("%s device %d differs from device 0" % (path, d))
      run["device_mismatch"] = per_dev_bad[:8]
      run["finite"] = bool(all(np.all(np.isfinite(np.frombuffer(s[2], dtype=s[0])))
                               for _, s in dev0 if s[0].startswith("float")))
      h = hashlib.sha256()
      for path, s in dev0:
        h.update(path.encode()); h.update(repr(s[:2]).encode()); h.update(s[2])
      run["digest"] = h.hexdigest()
      if ref is None:
        ref = dev0
      else:
        run["cmp"] = _compare(ref, dev0)
      # were the updates actually preconditioned (non-trivial run)?
      run["calls"] = calls
    except Exception as e:  # pylint: disable=broad-except
      run["exc"] = "%s: %s" % (type(e).__name__, str(e)[:200])
      run["trace"] = traceback.format_exc()[-1500:]
    finally:
      ds.batch = orig_batch
    out["runs"][str(D)] = run
  restore()
  return out


def case_sharded(ds, jax, jnp, c):
  from jax.sharding import Mesh, PartitionSpec as P
  rng = common.SplitMix64(c["seed"])
  shapes = [tuple(s) for s in c["shapes"]]
  params = _normal_tree(rng, shapes)
  steps = c.get("steps", 3)
  grads = [_normal_tree(rng, shapes) for _ in range(steps)]
  kw = _make_kw(ds, c["kw"])
  out = dict(runs={})
  ref = None
  restore = install_surrogate_root(ds, jnp) if c.get("root") == "surrogate" else (lambda: None)
  for D in c["Ds"]:
    run = dict(D=D)
    try:
      opt = ds.distributed_shampoo(
          c.get("lr", 0.1), c["block_size"], shard_optimizer_states=True, num_devices_for_pjit=D,
          statistics_partition_spec=P("x", None, None),
          preconditioner_partition_spec=P("x", None, None), **kw)
      fns = opt.init(None)
      mesh = Mesh(np.array(jax.devices()[:D]), ("x",))
      with mesh:
        st = fns.init_fn(params)
        hist = [("init", st)]
        for t, g in enumerate(grads):
          u, st = opt.update(g, st, params)
          hist.append(("upd%d" % t, u))
          hist.append(("state%d" % t, st))
      locs = jax.tree.leaves(st.stats.local_stats,
                             is_leaf=lambda x: isinstance(x, ds.LocalShardedParameterStats))
      N = sum(len(l.sizes) for l in locs)
      run["N"] = N
      run["index_starts"] = [int(l.index_start) for l in locs]
      run["sizes"] = [len(l.sizes) for l in locs]
      g = st.stats.global_stats
      rows = int(g.statistics.shape[0])
      run["rows"] = rows
      ms = int(g.statistics.shape[1])
      padok = True
      for name, tree in hist:
        if not name.startswith(("state", "init")):
          continue
        gg = tree.stats.global_stats
        S = np.asarray(gg.statistics)
        E = np.asarray(gg.exponents)
        if S.shape[0] != rows or E.shape[0] != rows:
          padok = False
        if not all(np.array_equal(S[i], np.eye(ms, dtype=S.dtype)) for i in range(N, rows)):
          padok = False
        if not all(int(E[i]) == 1 for i in range(N, rows)):
          padok = False
      run["padding_rows_identity_exp1"] = padok
      recs = []
      for name, tree in hist:
        if name.startswith("upd"):
          recs += [(name + p, a) for p, a in _leaf_records(tree)]
        else:
          recs += [(name + ".count", np.asarray(tree.count))]
          recs += [(name + ".local" + p, a) for p, a in _leaf_records(tree.stats.local_stats)]
          gg = tree.stats.global_stats
          for f in ("statistics", "preconditioners", "exponents"):
            recs.append((name + ".global." + f + "[:N]", np.asarray(getattr(gg, f))[:N]))
      sigs = [(p, _sig(a)) for p, a in recs]
      run["finite"] = bool(all(np.all(np.isfinite(np.frombuffer(s[2], dtype=s[0])))
                               for _, s in sigs if s[0].startswith("float")))
      run["nleaves"] = len(sigs)
      if ref is None:
        ref = sigs
      else:
        run["cmp"] = _compare(ref, sigs)
    except Exception as e:  # pylint: disable=broad-except
      run["exc"] = "%s: %s" % (type(e).__name__, str(e)[:200])
      run["trace"] = traceback.format_exc()[-1500:]
    out["runs"][str(D)] = run
  restore()
  return out


def run(payload):
  import jax
  import jax.numpy as jnp
  from precondition import distributed_shampoo as ds
  import time
  results = []
  for c in payload["cases"]:
    t0 = time.time()
    k = c["kind"]
    if k == "batch":
      r = case_batch(ds, jnp, c)
    elif k == "unbatch":
      r = case_unbatch(ds, jnp, c)
    elif k == "roundtrip":
      r = case_roundtrip(ds, jnp, c)
    elif k == "pmap":
      r = case_pmap(ds, jax, jnp, c)
    elif k == "sharded":
      r = case_sharded(ds, jax, jnp, c)
    else:
      raise ValueError(k)
    r["kind"] = k
    r["case"] = c
    r["secs"] = round(time.time() - t0, 2)
    results.append(r)
  return dict(results=results, ndevices=len(jax.devices()))


if __name__ == "__main__":
  common.worker_main(run)
