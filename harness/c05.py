"""C05 — grafting: warm-up uses the graft step, afterwards only its norm is transplanted.

Deciding method: Coq theorems (coq/theories/Properties/C05.v: all vectors of any dimension, any norm
oracle meeting sqrt_spec at the vectors involved, all histories) about the executable model
coq/theories/C05/Model.v; the model is tied to /repo on every run through the PUBLIC optimizers
(harness/impl/c05_worker.py) with beta1 = 0 / momentum_decay = 0, weight decay 0, learning rate 1, so
that -update is the pre-momentum update.  For every step and parameter
  * implementation side (float64 numpy): norm identity |u|(|p|+eps) = |s||p| (Tearfree: |u| = |s|),
    u is a non-negative multiple of the implementation's own preconditioned gradient p
    (DS: Preconditioner.preconditioned_grad with the state's preconditioners; Tearfree: second_order
    transform in lock-step), u == closed-form graft step before the start step and for skipped params;
  * Coq side (exact rationals, norms by integer square root to 2^-80): the model's update
    ds_update / tf_update, fed with the closed-form graft step of the integer gradient history and p,
    equals the observed float32 update exactly where float arithmetic is exact (SGD / sign / no
    grafting during warm-up), else within tau_f32 = 2^-17 of the largest entry.
in every preconditioner representation: full, compressed (+r / -r), frequent-directions sketch,
int16-quantized under pmap on 2 forced host devices.
"""
import json
import math

from harness import common
from harness.common import zlit, blit, qlit

WORKER = "harness.impl.c05_worker"
HEADER = ("From Coq Require Import ZArith QArith List Bool.\n"
          "From Precond Require Import C05.Model C05.Check.\n"
          "Import ListNotations.\nOpen Scope Q_scope.\n"
          "Definition zv (l : list Z) : vec := map inject_Z l.\n")
PROOF_ARGS = dict(prop_files=["Properties/C05.v"], extra_targets=["theories/C05/Check.vo"])

GRAFT_NAMES = ["NONE", "SGD", "ADAGRAD", "RMSPROP", "RMSPROP_NORMALIZED", "SQRT_N", "ADAGRAD_NORMALIZED"]
DS_MODES = ["full", "comp+", "comp-", "fd", "quant"]
STARTS = [0, 1, 2]

# parameter trees: (shapes, block, merge, skip_rank_lt, skip_dim_gt); every tree has a skipped and a
# preconditioned parameter; block >= 4 so that compression rank +-1 applies (|r| + 2 < block)
DS_TREES = [
    dict(shapes=[[8, 6], [5], [3, 4, 2]], block=4, merge=4096, skip_rank_lt=2, skip_dim_gt=4096),
    dict(shapes=[[6], [4, 7], [2, 4]], block=4, merge=1, skip_rank_lt=1, skip_dim_gt=6),
    dict(shapes=[[5, 4, 2], [9]], block=5, merge=1, skip_rank_lt=2, skip_dim_gt=4096),
    dict(shapes=[[10, 4], [3], [4, 4]], block=5, merge=1, skip_rank_lt=2, skip_dim_gt=4096),
    dict(shapes=[[2, 2, 2, 4], [6, 5], [11]], block=4, merge=8, skip_rank_lt=2, skip_dim_gt=4096),
    dict(shapes=[[7, 5], [20], [4, 4, 4]], block=4, merge=1, skip_rank_lt=1, skip_dim_gt=16),
]
TF_TREES = [
    dict(shapes=[[8, 6], [5], [4, 4, 2]], block=4, merge=16, rank=2, skip_rank1=True, skip_dim_gt=4096),
    dict(shapes=[[6, 9], [3, 3, 2], [7]], block=3, merge=9, rank=2, skip_rank1=False, skip_dim_gt=4096),
    dict(shapes=[[4, 12], [8, 2], [6]], block=4, merge=8, rank=3, skip_rank1=True, skip_dim_gt=8),
    dict(shapes=[[2, 8, 4], [10], [5, 5]], block=5, merge=16, rank=2, skip_rank1=True, skip_dim_gt=4096),
    # unit dimensions: rank >= 2 parameters with at most one non-unit axis are NOT rank-1 for the skip rule
    # (added after a seeded change that counted rank without unit dimensions was missed)
    dict(shapes=[[1, 6], [6, 1], [1, 3, 1], [1, 3, 2]], block=4, merge=8, rank=2, skip_rank1=True,
         skip_dim_gt=4096),
]
BETAS = [0.5, 0.75, 1.0]
DEPS = [2.0 ** -10, 2.0 ** -20]


def gen_cases(ctx):
  rng = ctx.rng.fork()
  quick = ctx.tier == "quick"
  cases = []
  n = 0
  for gi in range(7):
    for mi, mode in enumerate(DS_MODES):
      starts = [STARTS[(gi + mi) % 3]] if quick else STARTS
      for start in starts:
        tree = DS_TREES[n % len(DS_TREES)]
        n += 1
        c = dict(kind="ds", graft=gi, mode=mode, start=start, steps=start + 2,
                 beta2=BETAS[rng.below(3)], deps=DEPS[rng.below(2)], seed=rng.next(),
                 cr={"comp+": 1, "comp-": -1, "fd": 1}.get(mode, 0))
        c.update(tree)
        if mode == "fd" and rng.below(2):
          c["cr"] = 2
          c["block"] = max(c["block"], 5)
        cases.append(c)
  # extras: zero gradient of a preconditioned parameter after the start step; EMA momentum flag /
  # no Nesterov must not matter at beta1 = 0; every start step with the dim-size skip rule
  for gi, start in ((1, 0), (2, 1), (3, 2), (6, 0)):
    tree = DS_TREES[(gi + start) % len(DS_TREES)]
    c = dict(kind="ds", graft=gi, mode="full", start=start, steps=start + 2, beta2=0.5,
             deps=2.0 ** -10, seed=rng.next(), cr=0, zero_at=[start + 1, 0],
             nesterov=bool(gi % 2), ema=bool(start % 2))
    c.update(tree)
    cases.append(c)
  tf = []
  n = 0
  for graft in ("none", "sgd", "rmsprop", "adafactor"):
    for so in ("shampoo", "sketchy"):
      starts = [STARTS[n % 3]] if quick else STARTS
      for start in starts:
        tree = TF_TREES[n % len(TF_TREES)]
        n += 1
        c = dict(kind="tf", graft=graft, so=so, start=start, steps=start + 2,
                 beta=BETAS[rng.below(3)] if graft == "rmsprop" else 0.75,
                 eps=2.0 ** -20, seed=rng.next())
        c.update(tree)
        tf.append(c)
  for graft, so, start in (("sgd", "shampoo", 2), ("rmsprop", "sketchy", 0), ("rmsprop", "shampoo", 1)):
    tree = TF_TREES[(n + start) % len(TF_TREES)]
    n += 1
    c = dict(kind="tf", graft=graft, so=so, start=start, steps=start + 2, beta=1.0 if start else 0.5,
             eps=2.0 ** -20, seed=rng.next(), zero_at=[start + 1, 0])
    c.update(tree)
    tf.append(c)
  # magnitude changes along the history (powers of two): a collapsing history makes the preconditioned
  # gradient tiny while the graft step is not (zero-norm guard of the multiplier), a growing one the
  # reverse (added after a seeded change was missed)
  for graft, so, start, exps in (("sgd", "shampoo", 0, [7, 7, 7, -27, -27]),
                                 ("rmsprop", "shampoo", 1, [7, 7, -27, -27]),
                                 ("sgd", "sketchy", 0, [7, 7, 7, -27, -30]),
                                 ("rmsprop", "sketchy", 2, [-20, -20, 10, 10]),
                                 ("sgd", "shampoo", 1, [-27, -27, 7, 7])):
    tree = TF_TREES[n % len(TF_TREES)]
    n += 1
    c = dict(kind="tf", graft=graft, so=so, start=start, steps=len(exps), beta=0.5,
             eps=2.0 ** -20, seed=rng.next(), scale_exps=exps)
    c.update(tree)
    tf.append(c)
  return cases + tf


# ------------------------------------------------------------------------------------------------
def qv(xs):
  return "[" + "; ".join(qlit(float(x)) for x in xs) + "]"


def zv(xs):
  if all(float(x) == int(x) and abs(x) < 2 ** 62 for x in xs):
    return "(zv [" + "; ".join(zlit(int(x)) for x in xs) + "]%Z)"
  return qv(xs)            # gradients scaled by a power of two: exact dyadic rationals


def terms_for(r):
  """One Coq term per (step, parameter) record of a case result."""
  c = r["case"]
  out = []
  for rec in r["recs"]:
    t, k = rec["t"], rec["k"]
    hist = "[" + "; ".join(zv(r["hist"][s][k]) for s in range(t)) + "]"
    g = zv(r["hist"][t][k])
    u = qv(rec["u"])
    p = qv(rec["p"]) if "p" in rec else "[]"
    if c["kind"] == "ds":
      gt = c["graft"]
      exact = gt == 0 or (rec["before"] and gt in (1, 5))
      out.append("chk_ds %s %s %s %s %s %s %s %s %s %s %s" % (
          zlit(gt), qlit(c["beta2"]), qlit(c["deps"]), blit(rec["skipped"]), zlit(t), zlit(c["start"]),
          hist, g, p, u, blit(exact)))
    else:
      graft = c["graft"]
      if graft == "none":
        out.append("vclose 0 %s %s" % (p, u))
        continue
      code = dict(sgd=1, rmsprop=2, adafactor=3)[graft]
      exact = graft == "sgd" and (rec["before"] or rec["skipped"])
      s_or = qv(rec["s"]) if "s" in rec else "[]"
      out.append("chk_tf %s %s %s %s %s %s %s %s %s %s %s %s" % (
          zlit(code), qlit(c["beta"]), qlit(c["eps"]), blit(rec["skipped"]), zlit(t), zlit(c["start"]),
          hist, g, p, u, s_or, blit(exact)))
  return out


def run_cases(ctx, cases, tag="corr"):
  quant = [i for i, c in enumerate(cases) if c.get("mode") == "quant"]
  rest = [i for i, c in enumerate(cases) if c.get("mode") != "quant"]
  results = [None] * len(cases)
  import concurrent.futures as cf

  def go(idxs, devices, nchunks):
    if not idxs:
      return
    # longest-first round robin keeps the chunks balanced
    idxs = sorted(idxs, key=lambda i: -cases[i]["steps"])
    chunks = [c for c in (idxs[j::nchunks] for j in range(nchunks)) if c]
    outs = common.run_workers_parallel(WORKER, [dict(cases=[cases[i] for i in ch]) for ch in chunks],
                                       x64=False, devices=devices, timeout=3000)
    for ch, o in zip(chunks, outs):
      for i, r in zip(ch, o["results"]):
        results[i] = r

  nq = max(1, min(len(quant), common.NPROC // 4))
  with cf.ThreadPoolExecutor(max_workers=2) as ex:
    f1 = ex.submit(go, quant, 2, nq)
    f2 = ex.submit(go, rest, None, max(1, common.NPROC - nq))
    f1.result()
    f2.result()
  terms, owner = [], []
  for i, r in enumerate(results):
    if "exc" in r or "recs" not in r:
      continue
    # non-finite values have no dyadic form: a non-finite update computed from a finite graft step and a
    # finite preconditioned gradient is a violation on the implementation itself (the gradients are
    # integers); a non-finite oracle input (p / s) belongs to C02 / C03 and is only counted
    nonfin = [(rec, [k for k in ("u", "p", "s") if k in rec and not all(math.isfinite(float(x)) for x in rec[k])])
              for rec in r["recs"]]
    nonfin = [(rec, ks) for rec, ks in nonfin if ks]
    if nonfin:
      for rec, ks in nonfin:
        if ks == ["u"]:
          r["ok"] = False
          r.setdefault("why", []).append(
              "non-finite update at step %d param %d although the graft step and the preconditioned "
              "gradient are finite" % (rec["t"], rec["k"]))
        else:
          ctx.count("oracle-nonfinite-skipped")
      continue
    ts = terms_for(r)
    terms += ts
    owner += [(i, j) for j in range(len(ts))]
  vals = ctx.coq_eval(tag, HEADER, terms, per_shard=max(4, len(terms) // (2 * common.NPROC) + 1))
  for (i, j), v in zip(owner, vals):
    if v not in ("true", "false"):
      raise common.CoqError("unexpected verdict %r" % v)
    rec = results[i]["recs"][j]
    rec["model_agrees"] = v == "true"
    if v != "true":
      results[i].setdefault("model_disagrees", []).append(
          "step %d param %d (%s)" % (rec["t"], rec["k"],
                                     "skipped" if rec["skipped"] else ("before start" if rec["before"]
                                                                       else "grafted")))
  return results


def slim(r):
  out = {k: v for k, v in r.items() if k not in ("case", "trace", "hist", "recs")}
  out["recs"] = [{k: v for k, v in rec.items() if k not in ("u", "p", "s")} for rec in r.get("recs", [])]
  return out


def matches_known(r, known):
  for k in known:
    m = k.get("match", {})
    if m.get("kind") and m["kind"] != r["kind"]:
      continue
    if "exc_prefix" in m and m["exc_prefix"] not in (r.get("exc", "") + " ".join(r.get("why", []))):
      continue
    pred = m.get("pred")
    if pred and not eval(pred, {}, dict(case=r["case"], r=r)):  # pylint: disable=eval-used
      continue
    return k
  return None


def judge(ctx, results, known, reported):
  for r in results:
    c = r["case"]
    if c["kind"] == "ds":
      label = "ds:%s:%s" % (GRAFT_NAMES[c["graft"]], c["mode"])
      ctx.count("ds:graft=%s" % GRAFT_NAMES[c["graft"]])
      ctx.count("ds:mode=%s" % c["mode"])
    else:
      label = "tf:%s:%s" % (c["graft"], c["so"])
      ctx.count("tf:graft=%s" % c["graft"])
      ctx.count("tf:second_order=%s" % c["so"])
    ctx.count("start=%d" % c["start"])
    for sh in c["shapes"]:
      ctx.count("shape=%s" % "x".join(map(str, sh)))
    for rec in r.get("recs", []):
      cls = "skipped" if rec["skipped"] else ("before_start" if rec["before"] else "grafted")
      ctx.count("step:" + cls)
      key = (json.dumps(c, sort_keys=True), rec["t"], rec["k"])
      sample = None
      if ctx.cov["evaluations"] % 131 == 0:
        sample = dict(case=label, start=c["start"], shape=c["shapes"][rec["k"]],
                      rec={k: v for k, v in rec.items() if k not in ("u", "p", "s")})
      ctx.case(key, nontrivial=(cls != "before_start" or c["start"] > 0), sample=sample)
    bad_impl = not r["ok"]
    bad_model = bool(r.get("model_disagrees"))
    if not bad_impl and not bad_model:
      continue
    kf = matches_known(r, known) if bad_impl else None
    if kf is not None:
      if kf["id"] not in reported:
        reported.add(kf["id"])
        ctx.known("%s %s" % (kf["id"], kf["title"]))
      continue
    import re
    why0 = (r.get("why") or [""])[0]
    cat = re.sub(r"[-+0-9.e]+", "#", why0.split(":", 1)[-1])[:40] if bad_impl else "model"
    sig = (c["kind"], bad_impl, cat, "exc" in r)
    if sig in reported:
      continue
    reported.add(sig)
    if bad_impl:
      ctx.violation("impl-violates", dict(
          input=c, expected="property C05 on the implementation: norm identity, direction, warm-up / "
          "skipped == graft step", actual=r.get("why") or r.get("exc"),
          theorem_or_check="implementation-side oracle harness/impl/c05_worker.py (%s)" % label,
          model=r.get("model_disagrees"), impl_output=slim(r)))
    else:
      ctx.violation("correspondence-broken", dict(
          input=c, expected="model C05.Model (ds_update / tf_update with closed-form graft steps) == "
          "observed update", actual=r["model_disagrees"],
          theorem_or_check="correspondence C05.Check (%s)" % label, impl_output=slim(r),
          note="implementation-side property oracle found nothing wrong on this input"),
          no_input=True)


def load_corpus():
  import glob
  import os
  out = []
  for p in sorted(glob.glob(os.path.join(common.VERIF, "corpus", "C05", "*.json"))):
    rec = json.load(open(p))
    c = rec.get("input", rec)
    if isinstance(c, dict) and "kind" in c:
      out.append(c)
  return out


def run(ctx):
  ctx.cov["rule"] = (
      "DS: every grafting type (7) x every preconditioner representation (full, compressed rank +1, "
      "compressed rank -1, frequent-directions sketch with reuse_preconditioner, int16-quantized under "
      "pmap on 2 devices); start step from {0,1,2} (quick: rotated so that every graft x start and "
      "mode x start pair occurs; thorough: full product); parameter trees rotate over 6 trees "
      "(17 distinct shapes, rank 1..4) each containing a skipped parameter (rank rule or dim-size rule) "
      "and preconditioned ones; beta2 in {1/2,3/4,1}, diagonal_epsilon in {2^-10,2^-20}; integer "
      "gradients in [-4,4] from the run's PRNG; start+2 steps. Extra cases: a zero gradient for a "
      "preconditioned parameter after the start step, nesterov / moving-average flags. Tearfree: "
      "4 grafting types x {shampoo, sketchy} x start steps, 4 trees with both skip rules. One "
      "evaluation = one (case, step, parameter); non-trivial unless it is a step-0 update with start 0.")
  ctx.assumptions += [
      "Coq 8.16.1 kernel + vm_compute",
      "norm / sqrt / rsqrt are oracles: theorems assume sqrt_spec at the vectors they mention; the "
      "check instantiates them by an integer square root accurate to 2^-80",
      "the preconditioned gradient p is an oracle of this property (its correctness is C02/C10): it is "
      "taken from the implementation itself (Preconditioner.preconditioned_grad on the returned state's "
      "preconditioners; Tearfree: second_order.apply run in lock-step)",
      "optax.adafactor is an oracle (run in lock-step): only the norm/direction identity is checked",
      "float32 rounding of norm, division, sqrt is not modelled: tau_f32 = 2^-17 relative to the largest "
      "entry (DESIGN section 3); exact comparison where the float computation is exact",
      "implementation-side tolerances: direction residual and norm identity 1e-5 relative (float32 "
      "norm of <= 120 entries has relative error < 2e-6), warm-up equality 2e-6 relative to the largest "
      "entry (float32 evaluation of x/(sqrt(acc)+eps) vs float64) or bitwise for SGD / sign / none"]
  ctx.proofs(**PROOF_ARGS)
  translator_obligations(ctx)
  known = common.load_known_findings("C05")
  reported = set()
  corpus = load_corpus()
  if corpus:
    ctx.log("%d corpus cases" % len(corpus))
    judge(ctx, run_cases(ctx, corpus, tag="corpus"), known, reported)
  cases = gen_cases(ctx)
  ctx.log("%d generated cases" % len(cases))
  judge(ctx, run_cases(ctx, cases), known, reported)
  ctx.flush_proof_failures()


def translator_obligations(ctx):
  """Regenerate the translation of tearfree maybe_graft from /repo and re-prove it equal to C05.Ref
  (linked to tf_update by c05_tf_source_is_model)."""
  from tools import targets
  text, errors = targets.generate_c05(common.REPO)
  ctx.cov["obligations"] += 2
  if errors:
    ctx.proof_failure("translate tearfree/grafting.py maybe_graft", json.dumps(errors))
    return
  ok, out = ctx.gen_obligation("Gen", text)
  if not ok:
    ctx.proof_failure("compile gen/C05/Gen.v (translation of maybe_graft)", out[-2000:])
    return
  ctx.cov["discharged"] += 1
  ob = ("From Precond Require Import Base.PyLib Base.QMat Base.PyFloat.\nFrom Precond Require C05.Ref.\n"
        "From PrecondGen Require C05.Gen.\n"
        "Lemma gen_eq_tf_maybe_graft : C05.Gen.tf_maybe_graft = C05.Ref.tf_maybe_graft.\n"
        "Proof. reflexivity. Qed.\n")
  ok, out = ctx.gen_obligation("GenEq_tf_maybe_graft", ob)
  if ok:
    ctx.cov["discharged"] += 1
  else:
    ctx.proof_failure("GenEq_tf_maybe_graft (Gen = Ref)", out[-2000:])


def replay(ctx, rec):
  c = rec.get("input")
  if not isinstance(c, dict) or "kind" not in c:
    print("replay: nothing executable in this record (%s)" % rec.get("theorem_or_check"))
    return 1
  ctx.proofs(**PROOF_ARGS)
  r = run_cases(ctx, [c], tag="replay")[0]
  print(json.dumps(slim(r), indent=1)[:8000])
  bad = (not r["ok"]) or bool(r.get("model_disagrees"))
  print("REPLAY %s" % ("reproduces" if bad else "does not reproduce"))
  return 1 if bad else 0
