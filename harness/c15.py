"""C15 — Tearfree optimizer equals its documented composition.

Deciding method: Coq theorems (Properties/C15.v) about tf_spec (C15.Model): linearity in the
learning rate and lr-independence of the state for every configuration / history / oracle answer,
momentum-chain = documented formula, unmerge o merge = id, zero padding delivers the same values,
root spec.  Shape logic is C06.Ref (regenerated from /repo's source by C06 on every run).
Tie: tearfree.optimizer.tearfree(lr, options).init/update run eagerly through the public API
(float64 for Shampoo, float32 for Sketchy) over a covering sample of configurations x parameter
trees x histories; per step and per leaf Coq (vm_compute, exact dyadics) recomputes from the
implementation's own previous state everything upstream of the oracle kernels, checks the stored
roots / captured SVDs against their specs, then recomputes update and next state downstream.
lr-linearity and lr-independence of the state are checked bitwise on the implementation."""
import json
import math

from harness import common
from harness.common import dylit, dylist, dymat

HEADER = ("From Precond Require Import Base.PyLib Base.QMat C06.Records C06.Ref C09.Model C09.Check "
          "C15.Tensor C15.Model C15.Check.\nOpen Scope Q_scope.\n")
PROPS = ["Properties/C15.v"]
EXTRA = ["theories/C15/Check.vo"]
DIRS = ["C06", "C09"]

TAU64 = "(1 # 1099511627776)"     # 2^-40
TAU32 = "(1 # 131072)"            # 2^-17
AMP64 = "(1073741824 # 1)"        # 2^30
AMP32 = "(4096 # 1)"              # 2^12

CODES = {1: "statistics / sketch input differ from the documented update of the previous state "
            "(or changed off schedule)",
         2: "oracle proposal (numpy eigh / captured SVD) violates its spec (monitor)",
         3: "stored roots violate root^(2 rank) * cov = projector onto the kept eigenspace "
            "(per-block 1e-6 cut-off), or changed off schedule / sketch does not follow the FD recurrence",
         4: "grafting accumulator differs", 5: "momentum (trace) state differs",
         6: "update differs from -lr(t) * momentum(weight decay(graft(second_order(merge, pad g))))",
         7: "step counters", 8: "merged / padded shapes differ from C06.Ref",
         9: "ambiguous (eigenvalue at the cut-off)", 10: "ill-conditioned (amplification cap)",
         11: "state layout differs from the model"}
SKIP_CODES = (9, 10)
MONITOR_CODES = (2,)
MODEL_CODES = (2, 8)

GRAFT_ID = {"none": 0, "sgd": 1, "rmsprop": 2, "adafactor": 3}


def z(n):
  return "(%d)%%Z" % n


def q(x):
  return "(dy2q %s)" % dylit(x)


def dv(v):
  return "(dyvec %s)" % dylist(v)


def dm(m):
  return "(dymat %s)" % dymat(m)


def zl(xs):
  return "[" + "; ".join(z(x) for x in xs) + "]"


def bl(b):
  return "true" if b else "false"


def cfg_term(c):
  return "(mkcfg %s %s %s %s %s %s %s %s %s %s %s %s %s %s %s %s %s %s %s %s)" % (
      z(0 if c["so"] == "shampoo" else 1), z(c["block"]), z(c["merge"]), z(c["sfreq"]), z(c["pfreq"]),
      q(c["beta2"]), z(c["rank"]), q(c["seps"]), bl(c["rel_eps"]), z(GRAFT_ID[c["graft"]]),
      q(c["gbeta"]), q(c["geps"]), z(c["gstart"]), bl(c["skip_rank1"]), z(c["skip_dim_gt"]),
      bl(c["ema"]), bl(c["nesterov"]), q(c["mdecay"]), q(c["wd"]), bl(c["wd_after"]))


def so_term(so):
  if so is None:
    return "SoNone"
  if "stats" in so:
    f = lambda axs: "[" + "; ".join("[" + "; ".join(dm(b) for b in ax) + "]" for ax in axs) + "]"
    return "(SoSh %s %s)" % (f(so["stats"]), f(so["roots"]))
  return "(SoSk [%s])" % "; ".join(
      "mkax [%s] %s %s %s %s" % ("; ".join(dv(v) for v in a["V"]), dv(a["e"]), dv(a["inv"]),
                                 q(a["tail"]), q(a["inv_tail"])) for a in so["axes"])


def lstate_term(lf):
  return "(mkls %s %s %s)" % (so_term(lf["so"]), dv(lf["acc"]), dv(lf["trace"]))


def lrec_term(meta, lf, eig):
  eigs = "[]"
  if eig is not None:
    eigs = "[" + "; ".join(
        "[" + "; ".join("mkep %s [%s] %s" % (dv(e["w"]), "; ".join(dv(v) for v in e["V"]), dv(e["r"]))
                        for e in ax) + "]" for ax in eig) + "]"
  svds = "[]"
  if lf.get("svd"):
    svds = "[" + "; ".join("mksvd %s [%s] %s" % (dm(s["F"]), "; ".join(dv(v) for v in s["U"]), dv(s["s"]))
                           for s in lf["svd"]) + "]"
  return "(mkl %s %s %s %s %s %s %s %s %s)" % (
      zl(meta["shape"]), zl(meta["merged"]), zl(meta["padded"]), dv(lf["param"]), dv(lf["grad"]),
      dv(lf["update"]), dv(lf.get("ada", [])), eigs, svds)


def counts(st):
  f = lambda v: -1 if v is None else v
  return "(%s, %s, %s)" % (z(f(st["gcount"])), z(f(st["socount"])), z(f(st["lrcount"])))


def exact_stats(case):
  c = case["cfg"]
  return c["so"] == "shampoo" and case["hist"] in ("int", "zero_mixed") and c["beta2"] in (1.0, 0.5)


def step_term(r, t):
  case = r["case"]
  c = case["cfg"]
  f64 = c["so"] == "shampoo"
  tau = TAU64 if f64 else TAU32
  tol_stats = "0" if exact_stats(case) else tau
  tl = "(mktol %s %s %s)" % (tol_stats, tau, AMP64 if f64 else AMP32)
  pre, post, st = r["states"][t], r["states"][t + 1], r["steps"][t]
  names = r["names"]
  recs = "[" + "; ".join(lrec_term(r["meta"][nm], st["leaves"][nm], (st.get("eig") or {}).get(nm))
                         for nm in names) + "]"
  ss = "[" + "; ".join(lstate_term(pre["leaves"][nm]) for nm in names) + "]"
  ss2 = "[" + "; ".join(lstate_term(post["leaves"][nm]) for nm in names) + "]"
  sched = "[]" if c["lr_sched"] is None else "[" + "; ".join(q(v) for v in c["lr_sched"]) + "]"
  return "chk_step %s %s %s %s %s %s %s %s %s" % (cfg_term(c), tl, q(c["lr"]), sched, counts(pre),
                                                  counts(post), recs, ss, ss2)


# ------------------------------------------------------------------------------------------------
# generator
# ------------------------------------------------------------------------------------------------
def merge_small_dims(shape, max_dim):
  """Generator-side copy (only used to avoid configurations that tearfree's _init rejects)."""
  if shape and all(d == 1 for d in shape):
    return [1]
  out, prod = [], 1
  for d in shape:
    if prod * d <= max_dim:
      prod *= d
    else:
      if prod > 1:
        out.append(prod)
      prod = d
  if prod > 1:
    out.append(prod)
  return out


def shampoo_accepts(shape, merge, block):
  m = merge_small_dims(shape, merge)
  if m == [1]:
    return True
  return sum(1 for d in m if d >= block) <= 2


SHAPES = [[], [1], [3], [5], [4], [2, 2], [2, 3], [4, 3], [3, 4], [2, 2, 3], [4, 4], [6, 2], [2, 3, 2],
          [1, 1, 1], [4, 6], [5, 3], [3, 1, 2], [2, 5], [3, 3, 2], [6], [2, 2, 2, 2]]

VALUES = dict(
    block=[2, 3, 4], merge=[2, 3, 4, 6, 8, 1024], sfreq=[1, 1, 2, 3], pfreq=[1, 1, 2, 3],
    beta2=[1.0, 0.5, 0.9, 0.999, 0.75], rank=[1, 2, 3, 8], seps=[1e-7, 1e-3, 1e-7, 0.0],
    rel_eps=[True, False], graft=["none", "sgd", "rmsprop", "adafactor", "rmsprop"],
    geps=[1e-23, 1e-5, 1e-8], gstart=[0, 1, 2, 3, 100], skip_rank1=[True, False],
    skip_dim_gt=[4096, 3, 5], ema=[False, True], nesterov=[True, False],
    mdecay=[0.0, 0.5, 0.9, 0.75, 1.0], wd=[0.0, 0.25, 0.01], wd_after=[True, False],
    lrkind=["const", "sched"], hist=["int", "normal", "scale", "zero_mixed", "int", "blockscale"])


class Cycler:
  """Every value of every option is used equally often; combinations are random."""

  def __init__(self, rng):
    self.rng = rng
    self.pools = {}

  def get(self, key):
    if not self.pools.get(key):
      self.pools[key] = self.rng.shuffle(VALUES[key])
    return self.pools[key].pop()


def gen_cases(ctx, n_sh, n_sk):
  rng = ctx.rng
  cy = Cycler(rng)
  cases = []
  for i in range(n_sh + n_sk):
    so = "shampoo" if i < n_sh else "sketchy"
    graft = cy.get("graft")
    gbeta = {"none": 0.0, "sgd": 0.0, "rmsprop": rng.choice([1.0, 0.5, 0.9, 0.999]),
             "adafactor": rng.choice([0.5, 0.9, 0.75])}[graft]
    T = rng.rint(1, 6)
    lrkind = cy.get("lrkind")
    c = dict(so=so, block=cy.get("block"), merge=cy.get("merge"), sfreq=cy.get("sfreq"),
             pfreq=cy.get("pfreq") if so == "shampoo" else 1, beta2=cy.get("beta2"),
             rank=cy.get("rank"), seps=cy.get("seps"), rel_eps=cy.get("rel_eps"), graft=graft,
             gbeta=gbeta, geps=cy.get("geps"), gstart=cy.get("gstart"), skip_rank1=cy.get("skip_rank1"),
             skip_dim_gt=cy.get("skip_dim_gt"), ema=cy.get("ema"), nesterov=cy.get("nesterov"),
             mdecay=cy.get("mdecay"), wd=cy.get("wd"), wd_after=cy.get("wd_after"),
             lr=rng.choice([0.125, 0.25, 0.1, 1.0]),
             lr_sched=[rng.choice([0.125, 0.25, 0.5, 0.1, 0.0625, 1.0]) for _ in range(T + 1)]
             if lrkind == "sched" else None)
    if so == "sketchy" and c["seps"] == 0.0 and not c["rel_eps"]:
      c["seps"] = 1e-7            # eps = 0 makes the inverse roots of an empty tail/sketch undefined
    if graft == "adafactor":
      c["ada_min_dim"] = rng.choice([2, 128])
      c["ada_param_scale"] = bool(rng.below(2))
      c["ada_clip"] = rng.choice([1.0, 2.0])
    nleaves = rng.rint(1, 3)
    shapes = []
    guard = 0
    while len(shapes) < nleaves and guard < 200:
      guard += 1
      s = rng.choice(SHAPES)
      if so == "shampoo" and not shampoo_accepts(s, c["merge"], c["block"]):
        continue
      shapes.append(s)
    cases.append(dict(cfg=c, shapes=shapes, T=T, hist=cy.get("hist"), seed=rng.next(),
                      lr_pows=[rng.choice([-3, -2, -1, 1, 2, 3])]))
  # embedding-style histories (one row per step) with refresh frequencies above 1: on an off step a row
  # gets its first gradient while the stale covariance still treats it as zero, so the second-order
  # direction of that leaf is exactly zero and the documented update is zero (added after a seeded
  # change that handed such a leaf the raw graft step was missed)
  for graft, sfreq, pfreq in (("sgd", 2, 2), ("rmsprop", 1, 2), ("sgd", 2, 1)):
    base = dict(cases[0]["cfg"])
    base.update(so="shampoo", block=8, merge=2, sfreq=sfreq, pfreq=pfreq, beta2=1.0, graft=graft,
                gbeta=0.9 if graft == "rmsprop" else 0.0, geps=1e-8, gstart=0, skip_rank1=True,
                skip_dim_gt=4096, ema=False, nesterov=False, mdecay=0.0, wd=0.0, wd_after=True,
                lr=0.25, lr_sched=None)
    for k in ("ada_min_dim", "ada_param_scale", "ada_clip"):
      base.pop(k, None)
    cases.append(dict(cfg=base, shapes=[[5, 2], [3, 4]], T=4, hist="sparse_rows", seed=rng.next(),
                      lr_pows=[1]))
  return cases


def run_impl(cases):
  n = common.NPROC
  out = {}
  for x64 in (True, False):
    sel = [(i, c) for i, c in enumerate(cases) if (c["cfg"]["so"] == "shampoo") == x64]
    chunks = [sel[k::n] for k in range(n)]
    chunks = [ch for ch in chunks if ch]
    if not chunks:
      continue
    res = common.run_workers_parallel("harness.impl.c15_worker",
                                      [dict(cases=[c for _, c in ch]) for ch in chunks],
                                      x64=x64, timeout=3000)
    for ch, o in zip(chunks, res):
      for (i, _), r in zip(ch, o["results"]):
        out[i] = r
  return [out[i] for i in range(len(cases))]


def evaluate(ctx, results, tag):
  terms, idx = [], []
  for i, r in enumerate(results):
    if "exc" in r:
      continue
    try:
      ts = [step_term(r, t) for t in range(len(r["steps"]))]
    except ValueError as e:          # NaN / inf has no dyadic form
      r["exc"] = "non-finite value in update or state from finite gradients (%s)" % e
      r["nonfinite"] = True
      continue
    for t, tm in enumerate(ts):
      terms.append(tm)
      idx.append((i, t))
  vals = ctx.coq_eval(tag, HEADER, terms, per_shard=max(4, len(terms) // (3 * common.NPROC) + 1),
                      timeout=2400)
  for (i, t), v in zip(idx, vals):
    results[i].setdefault("codes", {})[t] = int(v.replace("%Z", "").strip("()"))
  return results


def _finite(x):
  return x == x and x not in (float("inf"), float("-inf"))


def matches_d16(r):
  """Predicate of finding C15-D16 (see proposed_findings / known_findings): Sketchy, epsilon = 0,
  and at the first step with a non-finite value some retained direction has inv_eigvals = inf
  although eigvals > 0, because float32(eigvals)^2 (+ tail = 0) underflowed to zero."""
  c = r["case"]["cfg"]
  if c["so"] != "sketchy" or c["seps"] != 0.0 or not r.get("nonfinite"):
    return False
  for t, st in enumerate(r["steps"]):
    post = r["states"][t + 1]
    vals = [v for lf in st["leaves"].values() for v in lf["update"]]
    bad_axes = False
    for lf in post["leaves"].values():
      so = lf["so"]
      if not so or "axes" not in so:
        continue
      for a in so["axes"]:
        vals += a["inv"] + a["e"] + [a["tail"], a["inv_tail"]]
        for e, i in zip(a["e"], a["inv"]):
          if i == float("inf") and e > 0 and e * e < 2.0 ** -126 and a["tail"] == 0.0:
            bad_axes = True
    if not all(_finite(v) for v in vals):
      return bad_axes        # decided at the FIRST non-finite step
  return False


def report(ctx, results):
  seen = set()
  known = common.load_known_findings("C15")
  nskip = 0
  nsteps = 0
  for r in results:
    case = r["case"]
    c = case["cfg"]
    key = json.dumps(case, sort_keys=True)
    if "exc" in r:
      ctx.case(key, False)
      ctx.count("exception")
      d16 = [f for f in known if f.get("id") == "C15-D16" and f.get("status") == "open"]
      if d16 and matches_d16(r):
        ctx.count("known_finding_C15-D16")
        if "d16" not in seen:
          seen.add("d16")
          ctx.known("C15-D16 tearfree Sketchy epsilon=0: squared tiny singular value underflows, "
                    "inv_eigvals = inf, NaN update (cfg rank=%d shapes=%s seed=%d)" % (
                        c["rank"], case["shapes"], case["seed"]))
        continue
      sig = ("exc", r["exc"][:60])
      if sig not in seen:
        seen.add(sig)
        ctx.violation("impl-violates", dict(
            input=case, expected="tearfree(lr, options).init/update run on an accepted configuration",
            actual=r["exc"], trace=r.get("trace"), theorem_or_check="harness/impl/c15_worker.py"))
      continue
    codes = r.get("codes", {})
    ctx.case(key, case["T"] > 1 and any(len(s) >= 1 for s in case["shapes"]),
             sample=dict(case=case, codes=codes) if ctx.cov["evaluations"] % 23 == 0 else None)
    for k in ("so", "graft", "hist", "ema", "nesterov", "wd_after", "block", "merge", "sfreq", "pfreq",
              "gstart", "skip_rank1", "skip_dim_gt", "beta2", "mdecay", "wd", "rank"):
      if c["so"] == "sketchy" and k in ("block", "pfreq"):
        continue
      if c["so"] == "shampoo" and k == "rank":
        continue
      ctx.count("%s=%s" % (k, case["hist"] if k == "hist" else c[k]))
    ctx.count("lr=%s" % ("schedule" if c["lr_sched"] else "constant"))
    ctx.count("leaves", len(case["shapes"]))
    for s in case["shapes"]:
      ctx.count("rank%d" % len(s))
    # bitwise lr linearity / state independence on the implementation
    for ln in r["lin"]:
      ctx.count("lr_ratio=2^%d" % ln["k"])
      if not ln["ok"]:
        sig = ("lin", ln["bad"]["what"][:30])
        if sig not in seen:
          seen.add(sig)
          ctx.violation("impl-violates", dict(
              input=case, lr_ratio_log2=ln["k"], expected="update(2^k lr) == 2^k update(lr) bitwise and "
              "bitwise identical optimizer state", actual=ln["bad"],
              theorem_or_check="tf_linear_in_lr / tf_state_independent_of_lr (bitwise on the implementation)"))
    for t, code in sorted(codes.items()):
      nsteps += 1
      if code == 0:
        continue
      leaf, cc = divmod(code, 100)
      if cc in SKIP_CODES:
        nskip += 1
        ctx.count("ambiguous_skipped(code %d)" % cc)
        continue
      sig = (c["so"], cc)
      if sig in seen:
        continue
      seen.add(sig)
      kind = "correspondence-broken" if cc in MODEL_CODES else "impl-violates"
      ctx.violation(kind, dict(
          input=case, step=int(t), leaf=leaf, code=cc, expected="chk_step = 0 (implementation step equals tf_spec)",
          actual=CODES.get(cc, "code %d" % cc),
          theorem_or_check="C15.Check.chk_step / tf_spec (C15.Model.tf_leaf); theorems c15_*"),
          no_input=(cc in MONITOR_CODES))
  ctx.count("steps_checked", nsteps)
  if nsteps and nskip > 0.05 * nsteps:
    ctx.violation("correspondence-broken", dict(
        theorem_or_check="generator degenerate", actual="%d of %d steps skipped as ambiguous" % (nskip, nsteps)),
        no_input=True)


RULE = (
    "configurations: every value of {second-order type, block size, merge limit, statistics / "
    "preconditioner frequency, decay, sketch rank / eps, grafting type / decay / eps / start step / skip "
    "rules, ema, nesterov, momentum decay, weight decay, its placement, constant / scheduled lr} is used "
    "equally often (cycled), combinations random; x 1-3 leaves from 21 shapes (rank 0-4, with merges, "
    "padding, 1-2 blocked axes, masked leaves) x histories of 1-6 steps (4-bit integers, normal, per-leaf "
    "scales 1e-3..1e3, with zero steps, half of each tensor 1e-4 times smaller), parameters follow the updates; every step of every case is one "
    "evaluation of chk_step; distinct by generator parameters; non-trivial when more than one step")


def setup(ctx):
  ctx.cov["rule"] = RULE
  ctx.assumptions += [
      "Coq 8.16.1 kernel + vm_compute",
      "eigh / svd / scalar roots are oracles: numpy eigen-decompositions of the implementation's stored "
      "statistics (and Sketchy's captured SVD calls) are proposals, each checked in Coq against its spec "
      "(2^-40 float64 / 2^-17 float32 relative) before use; the stored roots must then equal "
      "V diag(w_i^(-1/p) [w_i > 1e-6 max w]) V^T and satisfy root^p cov = projector, to "
      "tolerance * (1 + condition number of the kept spectrum)",
      "uniqueness of the PSD pseudo-inverse root (spec determines the root) is assumed, not proved",
      "optax.adafactor's update is an oracle value (independent optax instance on the same history); "
      "optax trace / scale / add_decayed_weights / scale_by_schedule are re-stated in C15.Model and tied "
      "by this correspondence only",
      "float rounding of the pipeline is absorbed by tolerance * (4 + amplification) * operand scale; "
      "steps with amplification above 2^30 (f64) / 2^12 (f32) or an eigenvalue within 2^-20 of the cut-off "
      "are skipped and counted (run fails above 5% skipped)",
      "shape logic is C06.Ref; its equality with /repo's source is re-proved by ./check C06, here the "
      "implementation's merged / padded shapes are compared with it on every leaf"]
  return ctx.proofs(PROPS, extra_targets=EXTRA, dirs=DIRS)


def run(ctx):
  setup(ctx)
  quick = ctx.tier == "quick"
  corpus = load_corpus()
  cases = corpus + gen_cases(ctx, 44 if quick else 360, 24 if quick else 180)
  ctx.log("%d cases (%d from corpus)" % (len(cases), len(corpus)))
  results = run_impl(cases)
  ctx.log("implementation done")
  results = evaluate(ctx, results, "c15")
  report(ctx, results)


def load_corpus():
  import glob
  import os
  out = []
  for p in sorted(glob.glob(os.path.join(common.VERIF, "corpus", "C15", "*.json"))):
    rec = json.load(open(p))
    if isinstance(rec.get("input"), dict) and "cfg" in rec["input"]:
      out.append(rec["input"])
  return out


def replay(ctx, rec):
  case = rec.get("input")
  if not isinstance(case, dict) or "cfg" not in case:
    print("replay: nothing executable in this record")
    return 1
  setup(ctx)
  res = evaluate(ctx, run_impl([case]), "replay")
  r = res[0]
  bad = "exc" in r
  print("exception:", r.get("exc"))
  if r.get("nonfinite"):
    print("matches the predicate of finding C15-D16:", matches_d16(r))
  for t, code in sorted(r.get("codes", {}).items()):
    leaf, cc = divmod(code, 100)
    print("step %s: code %d (leaf %d: %s)" % (t, code, leaf, CODES.get(cc, "ok") if code else "ok"))
    if code and cc not in SKIP_CODES:
      bad = True
  for ln in r.get("lin", []):
    print("lr ratio 2^%d bitwise:" % ln["k"], "ok" if ln["ok"] else ln["bad"])
    bad = bad or not ln["ok"]
  print("REPLAY %s" % ("reproduces" if bad else "does not reproduce"))
  return 1 if bad else 0
