"""C08 — block-diagonal semantics: blocks and parameters do not influence each other.

Deciding method: Coq theorems (Properties/C08.v): the flat statistics / preconditioner layout of
Distributed Shampoo is block diagonal (ds_block_local, histories by induction), the root
computation over all parameters' statistics returns each parameter's own roots (ds_param_local),
blocked = assemble of separate blocks (blocked_equals_separate), Tearfree's _pth_inv_root is block
local with the per-block maximum (and refuted for the old whole-batch maximum).
Tie (main detector, public API, eager): a blocked tensor vs its blocks as separate leaves vs the
blocked tensor with companion leaves, per-block gradient scales 1e-6..1e6; Coq derives from
C06.Ref which state entries belong to which block and evaluates the comparison tables on exact
dyadics (exact equality = bitwise equality)."""
import json

from harness import common
from harness.common import dylit, dylist, dymat

HEADER = ("From Precond Require Import Base.PyLib Base.QMat C06.Records C06.Ref C15.Tensor C15.Model "
          "C15.Check C08.Model C08.Check.\nOpen Scope Q_scope.\n")
PROPS = ["Properties/C08.v"]
EXTRA = ["theories/C08/Check.vo"]
DIRS = ["C06", "C09", "C15"]
TAU32 = "(1 # 131072)"
TAU64 = "(1 # 1099511627776)"

CODES = {1: "harness block gradients differ from the model's partition (C06.Ref boxes)",
         2: "statistics of a block differ between the blocked tensor and the separate leaf (bitwise)",
         3: "preconditioner / root of a block differs between the blocked tensor and the separate leaf (bitwise)",
         4: "update of a block differs between the blocked tensor and the separate leaf",
         5: "statistics of the tensor change when companion leaves are present (bitwise)",
         6: "preconditioners / roots of the tensor change when companion leaves are present",
         7: "update of the tensor changes when companion leaves are present",
         8: "state layout: number of statistics / roots differs from blocks x axes"}
MODEL_CODES = (1,)


def dv(v):
  return "(dyvec %s)" % dylist(v)


def dm(m):
  return "(dymat %s)" % dymat(m)


def lst(xs):
  return "[" + "; ".join(xs) + "]"


def nats(xs):
  return "[" + "; ".join("%d%%nat" % x for x in xs) + "]"


def ds_term(r):
  case = r["case"]
  steps = []
  for s in r["steps"]:
    steps.append("mkd %s %s %s %s %s %s %s %s %s %s %s %s" % (
        dv(s["g"]), lst(dv(x) for x in s["gB"]), dv(s["uA"]), lst(dv(x) for x in s["uB"]), dv(s["uP"]),
        lst(dm(m) for m in s["A"]["stats"]), lst(dm(m) for m in s["A"]["pre"]),
        lst(dm(m) for m in s["P"]["stats"]), lst(dm(m) for m in s["P"]["pre"]),
        lst(lst(dm(m) for m in b["stats"]) for b in s["B"]),
        lst(lst(dm(m) for m in b["pre"]) for b in s["B"]),
        lst("(dy2q %s, dy2q %s)" % (dylit(lo), dylit(hi)) for lo, hi in s["lam"])))
  c = case["cfg"]
  return "chk_ds (%d)%%Z %s %s (dy2q %s) %s %s %s %s" % (
      c["block"], nats(case["shape"]), TAU32, dylit(float(__import__("numpy").float32(c["meps"]))),
      "true" if c["rel_eps"] else "false", "true" if c["graft"] == "none" else "false",
      "true" if case.get("eager", True) else "false", lst(steps))


def tf_term(r):
  case = r["case"]
  f = lambda axs: lst(lst(dm(m) for m in ax) for ax in axs)
  steps = []
  for s in r["steps"]:
    steps.append("mkt %s %s %s %s %s %s %s %s %s %s %s" % (
        dv(s["g"]), lst(dv(x) for x in s["gB"]), dv(s["uA"]), lst(dv(x) for x in s["uB"]), dv(s["uP"]),
        f(s["A"]["stats"]), f(s["A"]["pre"]), f(s["P"]["stats"]), f(s["P"]["pre"]),
        lst(f(b["stats"]) for b in s["B"]), lst(f(b["pre"]) for b in s["B"])))
  return "chk_tf (%d)%%Z %s %s %s" % (case["cfg"]["block"], nats(case["shape"]), TAU64, lst(steps))


# ------------------------------------------------------------------------------------------------
def n_blocks_ds(shape, b):
  n = 1
  for d in shape:
    n *= ((d - 1) // b + 1) if 0 < b < d else 1
  return n


def n_blocks_tf(shape, b):
  n = 1
  for d in shape:
    n *= d // b if d >= b else 1
  return n


COMP_SHAPES = [[], [1], [3], [2, 2], [5], [3, 2], [7], [2, 3, 2], [6, 2], [9]]


def gen_cases(ctx, n_ds, n_tf):
  rng = ctx.rng
  cases = []
  ds_shapes = {2: [[4], [5], [4, 2], [3, 4], [4, 5], [2, 5], [5, 3], [4, 4], [2, 2, 3], [3, 2, 4]],
               3: [[6], [7], [6, 2], [3, 5], [4, 7], [5, 5], [6, 4], [2, 7]],
               4: [[8], [9], [6, 3], [5, 6], [8, 4], [4, 9], [7, 5]]}
  grafts = ["none", "none", "none", "sgd", "rmsprop", "rmsprop_normalized", "adagrad"]
  for i in range(n_ds):
    b = [2, 3, 4][i % 3]
    shape = rng.choice(ds_shapes[b])
    graft = grafts[i % len(grafts)]
    plain = graft != "none"        # direction comparison needs update = -lr * m * P(g)
    cfg = dict(block=b, lr=rng.choice([0.125, 0.25, 1.0]),
               beta1=0.0 if plain else rng.choice([0.0, 0.5, 0.9]),
               beta2=rng.choice([1.0, 0.999, 0.5, 0.9]), meps=rng.choice([1e-6, 1e-6, 1e-12, 1e-3]),
               wd=0.0 if plain else rng.choice([0.0, 0.0, 0.25]), start=0 if plain else rng.choice([0, 1, 2]),
               pfreq=rng.choice([1, 1, 2]), sfreq=rng.choice([1, 1, 2]), graft=graft,
               nesterov=False if plain else bool(rng.below(2)), moving_avg=bool(rng.below(2)),
               rel_eps=bool(rng.below(4) != 0), eigh=bool(rng.below(2)))
    comps = [[rng.choice(COMP_SHAPES), rng.rint(-6, 6)] for _ in range(rng.rint(1, 3))]
    if i % 4 == 3 and b >= 3:
      # the tensor's statistics are all smaller than the block size and a companion brings a larger
      # statistic: with the companion the tensor's statistics are padded (identity block, masked by
      # padding_start), alone they are not
      shape = rng.choice([[2], [2, 2]] if b == 3 else [[2], [3], [2, 3], [3, 3], [2, 2], [3, 2, 2]])
      comps[0] = [rng.choice([[b], [b, 2], [2, b]]), rng.rint(-3, 3)]
    nb = n_blocks_ds(shape, b)
    scales = [rng.rint(-6, 6) for _ in range(nb)] if i % 5 else [0] * nb
    if cfg["eigh"] and max(scales) >= 2:
      # matrix_inverse_pth_root_eigh reports an ABSOLUTE residual (~ lambda_max * u): for gradient
      # scales >= 1e2 it reaches the default acceptance gate 0.1 and rounding decides whether a root is
      # kept.  The gate is C03's subject; here it is opened so that the full scale range stays comparable.
      cfg["ift"] = 1e30
    strict = (i % 6 == 0)
    if strict:
      cfg["sfreq"] = 1     # under efficient_cond the statistics are computed inside a compiled while body
    cases.append(dict(kind="ds", cfg=cfg, shape=shape, T=rng.rint(1, 3) if strict else rng.rint(1, 5),
                      eager=strict,
                      hist=rng.choice(["normal", "normal", "int"]),
                      scales=scales, companions=comps, seed=rng.next()))
  # frequent-directions statistics (sketch factors for blocks larger than rank + 2, Gram matrices for
  # the others): which kind a block gets must depend on that block alone.  Ragged layouts around the
  # rank + 2 boundary; only the statistics are compared here (block of the tensor vs the same block as a
  # separate leaf, eager = same primitive sequence): the low-rank roots are discontinuous in the data at
  # the cut and are C09 / C10's subject (added after a seeded change was missed)
  for i, (shape, b, r) in enumerate([([12, 8], 8, 2), ([11, 8], 8, 2), ([10, 4], 8, 2), ([16, 8], 8, 2),
                                     ([13, 6], 8, 3), ([9, 9], 6, 1), ([7, 5], 5, 1)]):
    cfg = dict(block=b, lr=0.125, beta1=0.0, beta2=rng.choice([1.0, 0.9]), meps=1e-6, wd=0.0, start=0,
               pfreq=1, sfreq=1, graft="none", nesterov=False, moving_avg=False, rel_eps=True, eigh=False,
               fd=r)
    nb = n_blocks_ds(shape, b)
    cases.append(dict(kind="ds", cfg=cfg, shape=shape, T=3, eager=True, hist="normal",
                      scales=[0] * nb, companions=[[[3], 0]], seed=rng.next(), stats_only=True))
  tf_shapes = {2: [[4], [4, 2], [2, 4], [4, 4], [6, 2], [8, 2], [2, 6]],
               3: [[6], [6, 3], [3, 6], [6, 6], [6, 2], [2, 9], [9, 3]],
               4: [[8], [8, 4], [4, 8], [8, 3], [3, 8, 2], [8, 8], [12, 2]]}
  for i in range(n_tf):
    b = [2, 3, 4][i % 3]
    shape = rng.choice(tf_shapes[b])
    cfg = dict(block=b, lr=rng.choice([0.125, 0.25, 1.0]), beta1=rng.choice([0.0, 0.5, 0.9]),
               beta2=rng.choice([1.0, 0.999, 0.5, 0.9]), wd=rng.choice([0.0, 0.0, 0.25]),
               pfreq=rng.choice([1, 1, 2]), sfreq=rng.choice([1, 1, 2]), nesterov=bool(rng.below(2)),
               moving_avg=bool(rng.below(2)), wd_after=bool(rng.below(2)), graft="none")
    nb = n_blocks_tf(shape, b)
    # tearfree shampoo rejects unit dims and > 2 blocked axes; companions respect that
    comps = [[rng.choice([[3], [2, 2], [5], [3, 2], [7], [2, 3], [6, 2], [9]]), rng.rint(-6, 6)]
             for _ in range(rng.rint(1, 3))]
    comps = [c for c in comps if sum(1 for d in c[0] if d >= b) <= 2
             and all(d % b == 0 for d in c[0] if d >= b)] or [[[b], 0]]
    cases.append(dict(kind="tf", cfg=cfg, shape=shape, T=rng.rint(1, 5), eager=True,
                      hist=rng.choice(["normal", "normal", "int"]),
                      scales=[rng.rint(-6, 6) for _ in range(nb)] if i % 5 else [0] * nb,
                      companions=comps, seed=rng.next()))
  return cases


def run_impl(cases):
  n = common.NPROC
  out = {}
  for x64 in (False, True):
    sel = [(i, c) for i, c in enumerate(cases) if (c["kind"] == "tf") == x64]
    chunks = [ch for ch in (sel[k::n] for k in range(n)) if ch]
    if not chunks:
      continue
    res = common.run_workers_parallel("harness.impl.c08_worker",
                                      [dict(cases=[c for _, c in ch]) for ch in chunks], x64=x64,
                                      timeout=3000)
    for ch, o in zip(chunks, res):
      for (i, _), r in zip(ch, o["results"]):
        out[i] = r
  return [out[i] for i in range(len(cases))]




def gate_ambiguous(step, GATE=0.1):
  """A reported root error within a factor 4 of the acceptance gate (or non-finite, or on different
  sides of it in the three runs): rounding noise decides whether the new root replaces the old one,
  a discrete decision the comparison cannot follow (DESIGN 3: guard within tolerance of its threshold
  => skipped and counted)."""
  errs = list(step["A"].get("err", [])) + list(step["P"].get("err", []))
  for b in step["B"]:
    errs += list(b.get("err", []))
  if any(e < 0 for e in errs):
    return True
  near = any(GATE / 4 <= e <= GATE * 4 for e in errs)
  eb = [e for b in step["B"] for e in b.get("err", [])]
  flips = any((x >= GATE) != (y >= GATE) for x, y in zip(step["A"].get("err", []), eb)) or any(
      (x >= GATE) != (y >= GATE) for x, y in zip(step["A"].get("err", []), step["P"].get("err", [])))
  return near or flips


def evaluate(ctx, results, tag):
  terms, idx = [], []
  for i, r in enumerate(results):
    if "exc" in r:
      continue
    if r["case"].get("stats_only"):
      bad = []
      for t, st in enumerate(r["steps"]):
        flatA = st["A"]["stats"]
        flatB = [m for b in st["B"] for m in b["stats"]]
        if len(flatA) != len(flatB):
          bad.append("step %d: %d statistics for the blocked tensor, %d for its blocks" % (t, len(flatA), len(flatB)))
          continue
        for j, (x, y) in enumerate(zip(flatA, flatB)):
          x, y = __import__("numpy").array(x), __import__("numpy").array(y)
          if x.shape != y.shape:
            bad.append("step %d statistic %d: shape %s in the blocked tensor, %s for the block alone" % (
                t, j, list(x.shape), list(y.shape)))
          elif abs(x - y).max() > 1e-5 * max(abs(x).max(), abs(y).max(), 1e-30):
            bad.append("step %d statistic %d differs from the block optimised alone (max diff %.3e)" % (
                t, j, abs(x - y).max()))
      r["code"], r["nonbitwise"] = 0, [0, 0, 0]
      if bad:
        r["exc"] = "frequent-directions statistics of a block depend on its siblings: " + "; ".join(bad[:4])
      continue
    if r["case"]["kind"] == "ds":
      # the history is checked up to (excluding) the first step with an ambiguous acceptance gate
      n = len(r["steps"])
      for t, st in enumerate(r["steps"]):
        if gate_ambiguous(st, r["case"]["cfg"].get("ift", 0.1)):
          r["gate_skipped"] = n - t
          r["steps"] = r["steps"][:t]
          break
      if not r["steps"]:
        r["code"], r["nonbitwise"] = 0, [0, 0, 0]
        continue
    if not all(s["finite"] for s in r["steps"]):
      r["exc"] = "non-finite update from finite gradients (blocked / separate / with companions)"
      continue
    if r["case"]["kind"] == "ds":
      # the largest-eigenvalue estimate that scales the relative ridge of a statistic's root is a
      # function of that statistic alone: the same statistics (bitwise, checked in Coq) must give the
      # same estimate with and without companions (which only change the zero padding).  The roots
      # themselves are compared within a conditioning slack that is vacuous exactly where the ridge
      # matters, hence this direct comparison (added after a seeded change was missed).
      for t, st in enumerate(r["steps"]):
        a, p = st["A"].get("maxev") or [], st["P"].get("maxev") or []
        if len(a) == len(p) and st["A"]["stats"] == st["P"]["stats"]:
          for j, (x, y) in enumerate(zip(a, p)):
            if x > 0 and y > 0 and abs(x - y) > 1e-3 * max(x, y):
              r.setdefault("maxev_dep", []).append(dict(step=t, statistic=j, alone=x, with_companions=y))
    terms.append(ds_term(r) if r["case"]["kind"] == "ds" else tf_term(r))
    idx.append(i)
  vals = ctx.coq_eval(tag, HEADER, terms, per_shard=max(2, len(terms) // (3 * common.NPROC) + 1),
                      timeout=2400)
  for i, v in zip(idx, vals):
    nums = [int(x) for x in v.replace("%Z", "").replace("(", " ").replace(")", " ").replace(",", " ").split()]
    results[i]["code"], results[i]["nonbitwise"] = nums[0], nums[1:]
  return results


def report(ctx, results):
  seen = set()
  tot = sum(len(r.get("steps", [])) + r.get("gate_skipped", 0) for r in results if "exc" not in r)
  skipped = sum(r.get("gate_skipped", 0) for r in results)
  if tot and skipped > 0.05 * tot:
    ctx.violation("correspondence-broken", dict(
        theorem_or_check="generator degenerate", actual="%d of %d steps skipped as ambiguous" % (skipped, tot)),
        no_input=True)
  for r in results:
    case = r["case"]
    key = json.dumps(case, sort_keys=True)
    if "exc" in r:
      ctx.case(key, False)
      ctx.count("exception")
      sig = ("exc", r["exc"][:60])
      if sig not in seen:
        seen.add(sig)
        ctx.violation("impl-violates", dict(input=case, expected="init/update run", actual=r["exc"],
                                            trace=r.get("trace"),
                                            theorem_or_check="harness/impl/c08_worker.py"))
      continue
    spread = max(case["scales"]) - min(case["scales"])
    ctx.case(key, len(case["scales"]) > 1,
             sample=dict(case=case, code=r["code"], nonbitwise=r["nonbitwise"])
             if ctx.cov["evaluations"] % 19 == 0 else None)
    c = case["cfg"]
    ctx.count("%s/block=%d" % (case["kind"], c["block"]))
    ctx.count("%s/%s" % (case["kind"], "eager(strict bitwise)" if case.get("eager", True) else "jit(within tolerance)"))
    ctx.count("%s/rank%d" % (case["kind"], len(case["shape"])))
    ctx.count("%s/blocks=%d" % (case["kind"], len(case["scales"])))
    ctx.count("scale_spread_decades=%d" % (3 * (spread // 3)))
    ctx.count("graft=%s" % c["graft"])
    if case["kind"] == "ds":
      ctx.count("ds/eigh=%s" % c["eigh"])
      ctx.count("ds/ragged=%s" % any(d % c["block"] for d in case["shape"] if d > c["block"]))
    ctx.count("steps", len(r["steps"]))
    ctx.count("ambiguous_skipped_steps(root error within 4x of the acceptance gate)", r.get("gate_skipped", 0))
    if case["kind"] == "ds":
      # how much room the conditioning slack leaves (informative only; Coq recomputes it from the
      # verified eigenvalue bounds)
      for st in r["steps"]:
        for (lo, hi), a in zip(st["lam"], st["A"]["stats"]):
          ridge = c["meps"] * (hi if c["rel_eps"] else 1.0)
          sl = 16 * len(a) * 2.0 ** -24 * (hi + ridge) / (max(lo, 0.0) + ridge) if ridge > 0 else float("inf")
          ctx.count("ds/root_slack_%s" % ("<1e-4" if sl < 1e-4 else "<1e-2" if sl < 1e-2 else "<1" if sl < 1
                                           else ">=1(vacuous unless bitwise)"))
    ctx.count("companions", len(case["companions"]))
    if case["kind"] == "ds":
      own = max(min(d, c["block"]) for d in case["shape"])
      big = max([min(d, c["block"]) for cs, _ in case["companions"] for d in cs] + [0])
      ctx.count("ds/companion_enlarges_padded_size=%s" % (big > own))
    nbw = list(r["nonbitwise"])
    ctx.count("steps_with_unverified_conditioning_bound(unbounded slack)", nbw[2] // 1000000)
    nbw[2] %= 1000000
    for nm, v in zip(("steps_nonbitwise_update_blocked_vs_separate", "steps_nonbitwise_roots_with_companions",
                      "steps_nonbitwise_update_with_companions"), nbw):
      ctx.count(nm, v)
    if not all(s["finite"] for s in r["steps"]):
      ctx.count("nonfinite_update")
    if r.get("maxev_dep") and ("ds", "maxev") not in seen:
      seen.add(("ds", "maxev"))
      ctx.violation("impl-violates", dict(
          input=case, expected="the largest-eigenvalue estimate of a statistic (it scales the relative ridge "
          "matrix_epsilon * max_ev of its root) does not depend on companion parameters",
          actual=r["maxev_dep"][:6],
          theorem_or_check="implementation-side monitor: max_eigen_value diagnostics, blocked tensor alone vs "
          "with companions (bitwise-equal statistics); c08_ds_param_local"))
    if r["code"] == 0:
      continue
    step, cc = divmod(r["code"], 100)
    sig = (case["kind"], cc)
    if sig in seen:
      continue
    seen.add(sig)
    kind = "correspondence-broken" if cc in MODEL_CODES else "impl-violates"
    ctx.violation(kind, dict(
        input=case, step=step, code=cc, expected="comparison tables all equal / within tolerance",
        actual=CODES.get(cc, "code %d" % cc),
        theorem_or_check="C08.Check.%s; theorems c08_ds_block_local, c08_ds_param_local, "
        "c08_blocked_equals_separate, c08_tf_pth_inv_root_block_local" % (
            "chk_ds" if case["kind"] == "ds" else "chk_tf")), no_input=(cc in MODEL_CODES))


RULE = (
    "Distributed Shampoo: block_size 2..4 x tensors with 1 or 2 blocked axes (ragged last blocks, rank "
    "1-3) x grafting NONE (updates compared entry by entry) or SGD / RMSPROP / RMSPROP_NORMALIZED / "
    "ADAGRAD (momentum off, per-block directions compared after normalising by the observed block norms) "
    "x eigh / Newton roots x relative / absolute ridge x decay, momentum, weight decay, frequencies; "
    "Tearfree Shampoo (grafting NONE): block_size 2..4 x divisible dims, 1 or 2 blocked axes; both: "
    "per-block gradient scales 10^-6..10^6 (every fifth case unscaled), 1-3 companion leaves of arbitrary "
    "(every fourth Distributed Shampoo case: tensor smaller than the block size next to a companion with a "
    "larger statistic, so that only the run with companions pads the tensor's statistics) "
    "shape / scale 10^-6..10^6 / value, histories of 1-5 steps; one evaluation = one case (all steps, three "
    "trees); non-trivial when the tensor has more than one block")


def setup(ctx):
  ctx.cov["rule"] = RULE
  ctx.assumptions += [
      "Coq 8.16.1 kernel + vm_compute",
      "matrix roots are oracles: per statistic (Distributed Shampoo, C01) resp. eigh + scalar root "
      "(Tearfree); theorems hold for every oracle; padding invariance of the root "
      "(crop (root (pad M)) = root M, C01 masked_closed) and unbatch o batch = id (C13) are hypotheses",
      "blocked vs separate, op-by-op execution (every sixth Distributed Shampoo case, with "
      "statistics_compute_steps = 1, and all Tearfree cases): statistics and preconditioners / roots must be bitwise equal (same flat statistics list, same "
      "vmapped batch); under jax.jit (XLA fuses the two programs differently) statistics within 2^-17 "
      "relative and preconditioners within the conditioning slack below; updates within 2^-17 (f32) / 2^-40 (f64) * (4 + amplification) "
      "* running block scale, bitwise agreement counted",
      "with companion leaves: statistics bitwise; Distributed Shampoo preconditioners within "
      "(2^-17 + 16 n u32 kappa) * max entry, kappa = condition number of the damped statistic from "
      "eigenvalue bounds proposed by numpy and VERIFIED by the PSD checker (different padded size / batch "
      "composition changes the rounding of the float32 root computation, which the conditioning amplifies; "
      "same form as C01's slack); the update tolerance uses the OBSERVED preconditioner differences; "
      "Tearfree roots bitwise",
      "a step at which some reported root error lies within a factor 4 of the acceptance gate "
      "(inverse_failure_threshold = 0.1; opened to 1e30 for eigh cases with gradient scales >= 1e2, whose absolute eigh residual would sit at the gate), is non-finite, or falls on different sides of the gate in the three "
      "runs ends the checked part of that history (rounding decides a discrete keep-old / take-new choice); "
      "such steps are counted, the run fails above 5%",
      "with a grafting type other than NONE the per-block updates are compared after normalising by the "
      "observed block norms (the common grafting multiplier is C05's subject)"]
  return ctx.proofs(PROPS, extra_targets=EXTRA, dirs=DIRS)


def load_corpus():
  import glob
  import os
  out = []
  for p in sorted(glob.glob(os.path.join(common.VERIF, "corpus", "C08", "*.json"))):
    rec = json.load(open(p))
    if isinstance(rec.get("input"), dict) and "kind" in rec["input"]:
      out.append(rec["input"])
  return out


def run(ctx):
  setup(ctx)
  quick = ctx.tier == "quick"
  corpus = load_corpus()
  cases = corpus + gen_cases(ctx, 60 if quick else 480, 30 if quick else 240)
  ctx.log("%d cases (%d from corpus)" % (len(cases), len(corpus)))
  results = run_impl(cases)
  ctx.log("implementation done")
  results = evaluate(ctx, results, "c08")
  report(ctx, results)


def replay(ctx, rec):
  case = rec.get("input")
  if not isinstance(case, dict) or "kind" not in case:
    print("replay: nothing executable in this record")
    return 1
  setup(ctx)
  r = evaluate(ctx, run_impl([case]), "replay")[0]
  print("exception:", r.get("exc"))
  code = r.get("code", 0)
  step, cc = divmod(code, 100)
  print("code %d (step %d: %s); accepted-but-not-bitwise counters %s" % (
      code, step, CODES.get(cc, "ok") if code else "ok", r.get("nonbitwise")))
  bad = ("exc" in r) or code != 0
  print("REPLAY %s" % ("reproduces" if bad else "does not reproduce"))
  return 1 if bad else 0
