"""Shared machinery for every property check (see DESIGN.md sections 2-5).

Everything here is deliberately small and dependency free (stdlib only) so that
the same module can be imported both by the driver (this process) and by the
implementation-side workers (sub-processes that import jax / precondition).
"""
from __future__ import annotations

import fcntl
import fractions
import glob
import hashlib
import json
import math
import os
import re
import shutil
import subprocess
import sys
import time

VERIF = os.path.dirname(os.path.dirname(os.path.abspath(__file__)))
REPO = os.environ.get("VERIF_REPO", "/repo")
COQ = os.path.join(VERIF, "coq")
THEORIES = os.path.join(COQ, "theories")
# generated obligations / case files; runs against a scratch tree (VERIF_REPO=<worktree>, used to confirm
# seeded changes) get their own directory so that they can run next to a check of /repo
GEN_NAME = "gen" if os.path.realpath(REPO) == "/repo" else "gen_other"
GEN = os.path.join(COQ, GEN_NAME)
PY = "/venv/bin/python"
NPROC = int(os.environ.get("VERIF_NPROC", "16"))
MAX_REPORTED = 12

FORBIDDEN = re.compile(
    r"\b(Admitted|admit|Axiom|Axioms|Parameter|Parameters|Conjecture|Conjectures)\b"
    r"|Admit\s+Obligations|Unset\s+Guard|bypass_check|type-in-type|impredicative-set"
    r"|Unset\s+Universe\s+Checking|Unset\s+Positivity")


# ----------------------------------------------------------------------------
# PRNG: one SplitMix64 state per run; every random choice derives from it.
# ----------------------------------------------------------------------------
class SplitMix64:
  MASK = (1 << 64) - 1

  def __init__(self, seed: int):
    self.s = seed & self.MASK

  def next(self) -> int:
    self.s = (self.s + 0x9E3779B97F4A7C15) & self.MASK
    z = self.s
    z = ((z ^ (z >> 30)) * 0xBF58476D1CE4E5B9) & self.MASK
    z = ((z ^ (z >> 27)) * 0x94D049BB133111EB) & self.MASK
    return z ^ (z >> 31)

  def below(self, n: int) -> int:
    return self.next() % n

  def rint(self, lo: int, hi: int) -> int:
    """Inclusive range."""
    return lo + self.below(hi - lo + 1)

  def choice(self, xs):
    return xs[self.below(len(xs))]

  def unit(self) -> float:
    return (self.next() >> 11) / float(1 << 53)

  def normal(self) -> float:
    u1 = max(self.unit(), 1e-300)
    u2 = self.unit()
    return math.sqrt(-2.0 * math.log(u1)) * math.cos(2 * math.pi * u2)

  def fork(self) -> "SplitMix64":
    return SplitMix64(self.next())

  def shuffle(self, xs):
    xs = list(xs)
    for i in range(len(xs) - 1, 0, -1):
      j = self.below(i + 1)
      xs[i], xs[j] = xs[j], xs[i]
    return xs


# ----------------------------------------------------------------------------
# Exact float <-> Coq literals.  A float is the dyadic m * 2^e.
# ----------------------------------------------------------------------------
def f2dy(x: float):
  """Exact (m, e) with x == m * 2**e, m odd or zero.  Raises on nan/inf."""
  x = float(x)
  if x != x or x in (float("inf"), float("-inf")):
    raise ValueError("non-finite float has no dyadic form: %r" % x)
  if x == 0.0:
    return (0, 0)
  m, e = math.frexp(x)  # x = m * 2**e, 0.5 <= |m| < 1
  m = int(m * (1 << 53))
  e -= 53
  while m % 2 == 0:
    m //= 2
    e += 1
  return (m, e)


def dy2frac(m: int, e: int) -> fractions.Fraction:
  return fractions.Fraction(m) * (fractions.Fraction(2) ** e)


def zlit(n) -> str:
  n = int(n)
  return "(%d)" % n if n < 0 else "%d" % n


def zlist(xs) -> str:
  return "[" + "; ".join(zlit(x) for x in xs) + "]"


def zlistlist(xss) -> str:
  return "[" + "; ".join(zlist(xs) for xs in xss) + "]"


def blit(b) -> str:
  return "true" if b else "false"


def dylit(x: float) -> str:
  """Coq pair (m, e) : Z * Z, exact."""
  m, e = f2dy(x)
  return "(%s, %s)%%Z" % (zlit(m), zlit(e))


def dylist(xs) -> str:
  return "[" + "; ".join(dylit(x) for x in xs) + "]"


def dymat(rows) -> str:
  return "[" + "; ".join(dylist(r) for r in rows) + "]"


def qlit(x) -> str:
  """Coq Q literal (n # d) from a float / Fraction / int, exact."""
  fr = fractions.Fraction(x) if not isinstance(x, float) else dy2frac(*f2dy(x))
  return "(%s # %d)" % (zlit(fr.numerator), fr.denominator)


def fv_lit(x: float) -> str:
  """Literal of the fault lattice FloatCls.fv."""
  x = float(x)
  if x != x:
    return "FNaN"
  if x == float("inf"):
    return "FPInf"
  if x == float("-inf"):
    return "FNInf"
  return "(FFin %s)" % qlit(x)


def f32bits(x) -> int:
  import struct
  return struct.unpack("<I", struct.pack("<f", float(x)))[0]


# ----------------------------------------------------------------------------
# Coq build / evaluation
# ----------------------------------------------------------------------------
class CoqError(Exception):
  pass


def _lock():
  os.makedirs(GEN, exist_ok=True)
  f = open(os.path.join(COQ, ".buildlock"), "w")
  fcntl.flock(f, fcntl.LOCK_EX)
  return f


def coq_make(targets=(), timeout=1800):
  """Build (incrementally) the hand-written theories.  Returns (ok, log)."""
  lk = _lock()
  try:
    gen_coqproject()
    if not os.path.exists(os.path.join(COQ, "Makefile")) or (
        os.path.getmtime(os.path.join(COQ, "_CoqProject")) >
        os.path.getmtime(os.path.join(COQ, "Makefile"))):
      p = subprocess.run(["coq_makefile", "-f", "_CoqProject", "-o", "Makefile"],
                         cwd=COQ, capture_output=True, text=True)
      if p.returncode != 0:
        return False, p.stdout + p.stderr
    cmd = ["timeout", str(timeout), "make", "-j%d" % NPROC] + list(targets)
    p = subprocess.run(cmd, cwd=COQ, capture_output=True, text=True)
    return p.returncode == 0, p.stdout + p.stderr
  finally:
    lk.close()


def gen_coqproject():
  """(Re)write _CoqProject from the files on disk (hand-written theories only)."""
  files = sorted(
      os.path.relpath(p, COQ)
      for p in glob.glob(os.path.join(THEORIES, "**", "*.v"), recursive=True))
  body = ["-Q theories Precond", "-arg -w", "-arg +declaration-outside-section",
          ""] + files
  txt = "\n".join(body) + "\n"
  path = os.path.join(COQ, "_CoqProject")
  old = open(path).read() if os.path.exists(path) else None
  if old != txt:
    with open(path, "w") as f:
      f.write(txt)


COQC_FLAGS = ["-Q", "theories", "Precond", "-Q", GEN_NAME, "PrecondGen",
              "-w", "+declaration-outside-section"]


def coqc(path, timeout=600):
  """Compile one file (path relative to coq/).  Returns (rc, stdout+stderr)."""
  p = subprocess.run(["timeout", str(timeout), "coqc"] + COQC_FLAGS + [path],
                     cwd=COQ, capture_output=True, text=True)
  return p.returncode, p.stdout + p.stderr


_EVAL_RE = re.compile(r"^\s*= (.*?)\n\s*: ", re.S | re.M)


def parse_evals(out: str):
  """Results of successive `Eval vm_compute in ...` commands, whitespace-normalised."""
  return [re.sub(r"\s+", " ", m.group(1)).strip() for m in _EVAL_RE.finditer(out)]


def grep_gate(paths=None):
  """Returns list of 'file:line: text' occurrences of forbidden vernacular."""
  bad = []
  if paths is None:
    paths = glob.glob(os.path.join(THEORIES, "**", "*.v"), recursive=True)
  for p in paths:
    try:
      src = open(p).read()
    except OSError:
      continue
    # strip comments (non-nested approximation is enough: nested handled by loop)
    prev = None
    while prev != src:
      prev = src
      src = re.sub(r"\(\*(?:(?!\(\*|\*\)).)*\*\)", lambda m: "\n" * m.group(0).count("\n"),
                   src, flags=re.S)
    for i, line in enumerate(src.split("\n"), 1):
      if FORBIDDEN.search(line):
        bad.append("%s:%d: %s" % (os.path.relpath(p, VERIF), i, line.strip()))
  return bad


# ----------------------------------------------------------------------------
# Implementation-side workers
# ----------------------------------------------------------------------------
def impl_env(x64=False, devices=None, extra=None):
  env = dict(os.environ)
  env["PYTHONPATH"] = REPO + os.pathsep + VERIF
  env["PYTHONHASHSEED"] = "0"
  env["JAX_PLATFORMS"] = "cpu"
  env["PRECONDITION_VERIF"] = "1"
  env.setdefault("TF_CPP_MIN_LOG_LEVEL", "3")
  if x64:
    env["JAX_ENABLE_X64"] = "1"
  else:
    env.pop("JAX_ENABLE_X64", None)
  flags = env.get("XLA_FLAGS", "")
  flags = re.sub(r"--xla_force_host_platform_device_count=\d+", "", flags)
  if devices:
    flags += " --xla_force_host_platform_device_count=%d" % devices
  if "xla_cpu_multi_thread_eigen" not in flags:
    flags += " --xla_cpu_multi_thread_eigen=false intra_op_parallelism_threads=1"
  env.setdefault("OMP_NUM_THREADS", "1")
  env.setdefault("OPENBLAS_NUM_THREADS", "1")
  env["XLA_FLAGS"] = flags.strip()
  if extra:
    env.update(extra)
  return env


def run_worker(module: str, payload, x64=False, devices=None, timeout=3600, extra=None):
  """Run `python -m <module>` with JSON payload on stdin; JSON result on the last
  stdout line starting with '@@RESULT '.  Raises CoqError-like RuntimeError on crash."""
  p = subprocess.run([PY, "-m", module], input=json.dumps(payload), text=True,
                     capture_output=True, cwd=VERIF,
                     env=impl_env(x64=x64, devices=devices, extra=extra), timeout=timeout)
  res = None
  for line in p.stdout.split("\n"):
    if line.startswith("@@RESULT "):
      res = json.loads(line[len("@@RESULT "):])
  if res is None:
    raise RuntimeError("worker %s failed rc=%s\nstdout tail:\n%s\nstderr tail:\n%s" %
                       (module, p.returncode, p.stdout[-3000:], p.stderr[-6000:]))
  return res


def run_workers_parallel(module, payloads, x64=False, devices=None, timeout=3600, extra=None,
                         max_procs=None):
  """Run several workers concurrently; returns results in order."""
  import concurrent.futures as cf
  n = max_procs or min(len(payloads), NPROC)
  with cf.ThreadPoolExecutor(max_workers=max(1, n)) as ex:
    futs = [ex.submit(run_worker, module, pl, x64, devices, timeout, extra) for pl in payloads]
    return [f.result() for f in futs]


def worker_main(fn):
  """Entry point helper for worker modules: reads JSON from stdin, prints @@RESULT."""
  payload = json.loads(sys.stdin.read())
  import precondition  # noqa: F401  (assert we are running the working tree)
  pf = os.path.realpath(precondition.__file__)
  if not pf.startswith(os.path.realpath(REPO) + os.sep):
    raise SystemExit("precondition imported from %s, not from %s" % (pf, REPO))
  out = fn(payload)
  sys.stdout.write("\n@@RESULT " + json.dumps(out) + "\n")
  sys.stdout.flush()


# ----------------------------------------------------------------------------
# Known findings (read-only at run time)
# ----------------------------------------------------------------------------
def load_known_findings(pid):
  path = os.path.join(VERIF, "known_findings.json")
  if not os.path.exists(path):
    return []
  data = json.load(open(path))
  out = [e for e in data.get("findings", []) if e.get("property") == pid]
  # development aid only (never set by MANIFEST commands): entries proposed but not yet accepted
  if os.environ.get("VERIF_PROPOSED_FINDINGS") == "1":
    pp = os.path.join(VERIF, "proposed_findings", pid + ".json")
    if os.path.exists(pp):
      out += [e for e in json.load(open(pp)).get("findings", []) if e.get("property") == pid]
  return out


# ----------------------------------------------------------------------------
# Per-run context: proofs, coq evaluation, evidence, verdict
# ----------------------------------------------------------------------------
class Ctx:

  def __init__(self, pid, tier, seed):
    self.pid = pid
    self.tier = tier
    self.seed = seed
    self.rng = SplitMix64(seed ^ int(hashlib.sha256(pid.encode()).hexdigest()[:8], 16))
    self.t0 = time.time()
    self.gen_dir = os.path.join(GEN, pid)
    # one run per (tree kind, property) at a time: a second ./check of the same property waits
    os.makedirs(GEN, exist_ok=True)
    import fcntl
    self._runlock = open(os.path.join(GEN, ".lock_" + pid), "w")
    fcntl.flock(self._runlock, fcntl.LOCK_EX)
    shutil.rmtree(self.gen_dir, ignore_errors=True)
    os.makedirs(self.gen_dir, exist_ok=True)
    self.cov = dict(obligations=0, discharged=0, checker_cmd="", trusted_base=[],
                    evaluations=0, distinct_nontrivial=0, rule="", samples=[])
    self.assumptions = []
    self.violations = []        # list of (replay_path, no_input_found)
    self.known_hits = []        # list of strings
    self.notes = []
    self.theorems = []
    self._distinct = set()
    self.hist = {}

  # ---- logging -----------------------------------------------------------
  def log(self, *a):
    print("[%s %6.1fs]" % (self.pid, time.time() - self.t0), *a, flush=True)

  def count(self, key, n=1):
    self.hist[key] = self.hist.get(key, 0) + n

  def case(self, key, nontrivial=True, sample=None):
    """Register one explored case.  key: hashable identity of the case."""
    self.cov["evaluations"] += 1
    if nontrivial:
      h = hashlib.sha1(repr(key).encode()).hexdigest()
      self._distinct.add(h)
    if sample is not None and len(self.cov["samples"]) < 6:
      self.cov["samples"].append(sample)

  # ---- proofs ------------------------------------------------------------
  def proofs(self, prop_files, extra_targets=(), dirs=None):
    """Build the hand-written theories needed by prop_files (paths relative to
    coq/theories, e.g. 'Properties/C06.v'), re-run coqc on each to capture Print
    Assumptions, count obligations.  Returns True iff all proof obligations check."""
    dirs = list(dirs or []) + ["Base", self.pid]
    paths = [os.path.join(THEORIES, f) for f in prop_files]
    for d in dirs:
      paths += glob.glob(os.path.join(THEORIES, d, "**", "*.v"), recursive=True)
    bad = grep_gate(sorted(set(paths)))
    if bad:
      self.log("grep gate failed:", bad[:5])
      self.proof_failure("grep-gate", "\n".join(bad))
      return False
    targets = ["theories/" + f[:-2] + ".vo" for f in prop_files] + list(extra_targets)
    ok, log = coq_make(targets)
    if not ok:
      self.log("coq make failed")
      self.proof_failure("make " + " ".join(targets), log[-4000:])
      return False
    allok = True
    for f in prop_files:
      src = open(os.path.join(THEORIES, f)).read()
      thms = re.findall(r"^\s*(?:Theorem|Corollary)\s+([A-Za-z0-9_']+)", src, re.M)
      rc, out = coqc("theories/" + f)
      if rc != 0:
        self.proof_failure("coqc " + f, out[-4000:])
        allok = False
        continue
      # Print Assumptions output: blocks after each theorem
      axioms = set()
      closed = out.count("Closed under the global context")
      for m in re.finditer(r"^([A-Za-z0-9_.']+)\s*:", out, re.M):
        axioms.add(m.group(1))
      self.cov["obligations"] += len(thms)
      self.cov["discharged"] += len(thms)
      self.theorems += ["%s:%s" % (f, t) for t in thms]
      tb = "%s: %d theorems; Print Assumptions: %d closed under the global context" % (
          f, len(thms), closed)
      if axioms:
        tb += "; axioms: " + ", ".join(sorted(axioms))
      self.cov["trusted_base"].append(tb)
    self.cov["checker_cmd"] = ("cd /verif/coq && make %s && coqc %s <file> "
                               "(Coq 8.16.1 kernel; vm_compute; no native_compute)" %
                               (" ".join(targets), " ".join(COQC_FLAGS)))
    return allok

  def gen_obligation(self, name, text, timeout=300):
    """Compile a generated obligation file coq/gen/<pid>/<name>.v.  Returns (ok, output)."""
    path = os.path.join(self.gen_dir, name + ".v")
    with open(path, "w") as f:
      f.write(text)
    bad = grep_gate([path])
    if bad:
      return False, "forbidden vernacular in generated file: %s" % bad
    try:
      self.make_imports(text)
    except CoqError as e:
      return False, str(e)
    rc, out = coqc(os.path.relpath(path, COQ), timeout=timeout)
    return rc == 0, out

  # ---- evaluation of the model inside Coq ---------------------------------
  def make_imports(self, header):
    """(Re)build every hand-written library a generated file imports, so that a case file never
    meets a .vo compiled against an older version of a shared library ("inconsistent
    assumptions"): the per-check make targets cover the check's own theories, not necessarily every
    library named in a case-file header."""
    mods = []
    for m in re.finditer(r"From\s+Precond\s+Require\s+(?:Import\s+|Export\s+)?(.*?)\.(?:\s|$)", header + "\n", re.S):
      mods += m.group(1).split()
    targets = sorted({"theories/%s.vo" % x.replace(".", "/") for x in mods
                      if os.path.exists(os.path.join(THEORIES, x.replace(".", "/") + ".v"))})
    key = tuple(targets)
    done = getattr(self, "_made_imports", set())
    if not targets or key in done:
      return
    ok, out = coq_make(targets)
    if not ok:
      raise CoqError("make of imported libraries failed:\n" + out[-3000:])
    done.add(key)
    self._made_imports = done

  def coq_eval(self, tag, header, terms, per_shard=250, timeout=900, salvage=False, term_timeout=300):
    """Evaluate each Coq term with vm_compute; returns list of result strings
    (same order).  header: vernacular placed at the top of every shard
    (Require Imports, Open Scope...).  Shards are compiled in parallel."""
    if not terms:
      return []
    self.make_imports(header)
    shards = [terms[i:i + per_shard] for i in range(0, len(terms), per_shard)]
    paths = []
    for k, sh in enumerate(shards):
      path = os.path.join(self.gen_dir, "cases_%s_%d.v" % (tag, k))
      with open(path, "w") as f:
        f.write(header + "\n")
        for t in sh:
          f.write("Eval vm_compute in (%s).\n" % t)
      paths.append(path)
    import concurrent.futures as cf
    results = []
    with cf.ThreadPoolExecutor(max_workers=NPROC) as ex:
      outs = list(ex.map(lambda p: coqc(os.path.relpath(p, COQ), timeout=timeout), paths))
    for k, ((rc, out), sh, path) in enumerate(zip(outs, shards, paths)):
      if rc != 0 and salvage:
        # a shard died (typically a time limit on one huge term): evaluate its terms one by one and
        # mark the ones that still fail as "TIMEOUT" (the caller counts them as inconclusive)
        self.log("shard %s failed (rc=%s): re-evaluating its %d terms separately" % (path, rc, len(sh)))
        sub = []
        for j, t in enumerate(sh):
          pj = os.path.join(self.gen_dir, "cases_%s_%d_t%d.v" % (tag, k, j))
          with open(pj, "w") as f:
            f.write(header + "\nEval vm_compute in (%s).\n" % t)
          sub.append(pj)
        with cf.ThreadPoolExecutor(max_workers=NPROC) as ex:
          souts = list(ex.map(lambda p: coqc(os.path.relpath(p, COQ), timeout=term_timeout), sub))
        for (rcj, outj) in souts:
          v = parse_evals(outj) if rcj == 0 else []
          results.append(v[0] if len(v) == 1 else "TIMEOUT")
        continue
      if rc != 0:
        raise CoqError("coqc failed on %s:\n%s" % (path, out[-3000:]))
      vals = parse_evals(out)
      if len(vals) != len(sh):
        raise CoqError("expected %d results, got %d in %s" % (len(sh), len(vals), path))
      results += vals
    return results

  # ---- verdicts -------------------------------------------------------------
  def _write_replay(self, kind, obj):
    os.makedirs(os.path.join(VERIF, "replays"), exist_ok=True)
    n = len(self.violations)
    path = os.path.join(VERIF, "replays", "%s_%s_%d_%d.json" % (self.pid, self.tier, self.seed, n))
    rec = dict(property=self.pid, seed=self.seed, tier=self.tier, kind=kind)
    rec.update(obj)
    with open(path, "w") as f:
      json.dump(rec, f, indent=1, default=str)
    return path

  def violation(self, kind, obj, no_input=False):
    """kind: impl-violates | model-violates | correspondence-broken | proof-broken.
    At most MAX_REPORTED violations are written out per run (one change usually fails many cases);
    the rest are only counted."""
    if len(self.violations) >= MAX_REPORTED:
      self.violations.append((None, no_input))
      if len(self.violations) == MAX_REPORTED + 1:
        print("(further violations of this run are counted in the evidence file, not listed)", flush=True)
      return
    path = self._write_replay(kind, obj)
    self.violations.append((path, no_input))
    line = "VIOLATION property=%s replay=%s" % (self.pid, path)
    if no_input:
      line += " no-failing-input-found"
    print(line, flush=True)

  def proof_failure(self, what, log):
    self.pending_proof_failures = getattr(self, "pending_proof_failures", [])
    self.pending_proof_failures.append(dict(theorem_or_check=what, log=log))

  def flush_proof_failures(self):
    """Called at the end: a broken proof/obligation for which the search found no
    concrete input is still a violation (no-failing-input-found)."""
    for pf in getattr(self, "pending_proof_failures", []):
      if not any(not ni for (_, ni) in self.violations):
        self.violation("proof-broken", pf, no_input=True)
    self.pending_proof_failures = []

  def known(self, text):
    self.known_hits.append(text)
    print("KNOWN-FINDING: property=%s %s" % (self.pid, text), flush=True)

  def finish(self):
    self.flush_proof_failures()
    self.cov["distinct_nontrivial"] = len(self._distinct)
    if self.hist:
      self.cov["distribution"] = self.hist
    if self.theorems:
      self.cov["theorems"] = self.theorems
    if self.known_hits:
      self.cov["known_findings_reproduced"] = self.known_hits
    if self.notes:
      self.cov["notes"] = self.notes
    ev = dict(property_id=self.pid, tier=self.tier, seed=self.seed, level="proof",
              coverage=self.cov, assumptions=self.assumptions,
              wall_s=round(time.time() - self.t0, 2), violations=len(self.violations))
    # evidence/ describes runs against /repo only; runs against another tree (VERIF_REPO=<scratch
    # worktree>, used to confirm seeded changes) are kept apart
    evdir = os.path.join(VERIF, "evidence" if os.path.realpath(REPO) == "/repo" else "evidence_other_tree")
    os.makedirs(evdir, exist_ok=True)
    with open(os.path.join(evdir, self.pid + ".json"), "w") as f:
      json.dump(ev, f, indent=1, default=str)
    self.log("done: %d evaluations, %d distinct non-trivial, %d obligations, %d violations, %.1fs" %
             (self.cov["evaluations"], self.cov["distinct_nontrivial"], self.cov["obligations"],
              len(self.violations), time.time() - self.t0))
    return 1 if self.violations else 0
