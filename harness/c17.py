"""C17 — Sketchy memory reallocation respects the memory budget.

Deciding method
  * Coq theorems (Properties/C17.v): `realloc_budget` for the REPAIRED allocation (proposed fix
    /verif/proposed_fixes/c17-reallocation-budget.diff) with an ARBITRARY proposal function clamped to
    the remaining resource (axiom-free, over Z, independent of float rounding); exact-arithmetic
    phase-1 invariants over Q; `leftover_pass_budget_refuted` documents the defect of the original loop.
  * Tie: correspondence on reallocation.create_redist_dict called with synthetic in-memory states.  The
    returned integer dictionary must equal the binary32 (Flocq) instance of the model evaluated in
    Coq on the float32 scores the implementation itself computed (score_fn), in the enumeration order
    of the implementation's `layer_names` set; create_groups / layers_and_axes / the score rules are
    compared as well.  The leftover loop / rd / grp_info are NOT translated by tools/py2v.py (they
    are inline statements with `break` and dict mutation inside create_redist_dict, outside the
    translator's whitelist); they are tied by this correspondence only.
  * Property oracle directly on the implementation's dictionary: every rank in [1, dim], per-group sum
    <= group_size * rank, no internal AssertionError / exception.
"""
import json
import os
import struct

from harness import common
from harness.common import zlit, blit

HEADER = ("From Coq Require Import ZArith List QArith.\nImport ListNotations.\n"
          "From Precond Require Import C11.F32 C17.Model C17.F32Inst C17.Check.\nOpen Scope Z_scope.\n")
PROOF_FILES = ["Properties/C17.v"]
EXTRA_TARGETS = ["theories/C17/Check.vo"]
RULES = ["ggt_intrinsic_rank", "ggt_trace", "tail_rho", "sketch_intrinsic_rank", "sketch_trace"]
RULE_ID = {r: i + 1 for i, r in enumerate(RULES)}
TARGET = {"ggt_intrinsic_rank": "ema_ggt", "ggt_trace": "ema_ggt", "tail_rho": "tail",
          "sketch_intrinsic_rank": "eigvals", "sketch_trace": "eigvals"}
DIM_POOL = [1, 2, 3, 4, 5, 7, 8, 16, 33, 64, 256]
TAU = "(1 # 131072)"     # 2^-17, DESIGN section 3 tau_f32 (inexact score rules only)


def fb(x):
  return common.f32bits(x)


def bf(b):
  return struct.unpack("<f", struct.pack("<I", b))[0]


def f32(x):
  """Round a Python float to binary32 (round to nearest even) and return it as a float."""
  return bf(fb(x))


# ----------------------------------------------------------------------------------------------
# generator
# ----------------------------------------------------------------------------------------------
def gen_scores(rng, n, mode):
  if mode == "tied":
    v = f32(rng.unit() * 4 + 0.01) if rng.below(2) else float(rng.rint(1, 9))
    if rng.below(2):
      return [v] * n
    w = f32(v * (1 + rng.rint(1, 3) * 2.0 ** -23)) if rng.below(2) else f32(v * 2)
    return [rng.choice([v, w]) for _ in range(n)]
  if mode == "zero":
    if rng.below(3) == 0:
      return [0.0] * n
    return [0.0 if rng.below(2) else f32(rng.unit() * 3) for _ in range(n)]
  if mode == "disparate":
    return [f32((1 + rng.unit()) * 2.0 ** rng.rint(-40, 40)) for _ in range(n)]
  if mode == "uniform":
    return [f32(rng.unit()) for _ in range(n)]
  if mode == "ints":
    return [float(rng.rint(0, 20)) for _ in range(n)]
  if mode == "cancel":
    big = f32((1 + rng.unit()) * 2.0 ** rng.rint(18, 30))
    out = [f32(rng.unit() * 8 + 0.05) for _ in range(n)]
    out[rng.below(n)] = big
    if n > 2 and rng.below(2):
      out[rng.below(n)] = f32(big * (1 + rng.rint(-3, 3) * 2.0 ** -22))
    return out
  if mode == "near":
    base = f32(1 + rng.unit())
    return [f32(base * (1 + rng.rint(0, 6) * 2.0 ** -23)) for _ in range(n)]
  raise ValueError(mode)


MODES = ["tied", "zero", "disparate", "uniform", "ints", "cancel", "near"]


def data_for(rng, rule, s, exact_only=False):
  """Per-state data whose score under `rule` is exactly s (for the three additive rules) or some
  natural value (ratio rules).  Returns dict(target -> bits) and the data matrix (floats, rows)."""
  if rule == "tail_rho":
    return dict(tail=fb(s)), [[s]]
  if rule == "sketch_trace":
    k = rng.below(3)
    if k == 0:
      ev = [s]
    elif k == 1:
      ev = [f32(s / 2), f32(s / 2), 0.0]        # exact halves (no subnormals in range)
    else:
      ev = [0.0, s, 0.0, 0.0]
    return dict(eigvals=[fb(v) for v in ev]), [ev]
  if rule == "ggt_trace":
    k = rng.choice([1, 2, 3])
    m = [[float(rng.rint(-3, 3)) for _ in range(k)] for _ in range(k)]
    for i in range(k):
      m[i][i] = 0.0
    i0 = rng.below(k)
    m[i0][i0] = s
    return dict(ema_ggt=[[fb(v) for v in row] for row in m]), m
  if rule == "sketch_intrinsic_rank":
    k = rng.rint(1, 5)
    e = rng.rint(-6, 6)
    ev = [float(rng.rint(0, 12)) * 2.0 ** e for _ in range(k)]
    if s == 0.0:
      ev = [0.0] * k
    return dict(eigvals=[fb(v) for v in ev]), [ev]
  if rule == "ggt_intrinsic_rank":
    k = rng.rint(1, 4)
    e = rng.rint(-6, 6)
    d = [float(rng.rint(1, 12)) * 2.0 ** e for _ in range(k)]
    m = [[(d[i] if i == j else 0.0) for j in range(k)] for i in range(k)]
    return dict(ema_ggt=[[fb(v) for v in row] for row in m]), m
  raise ValueError(rule)


def gen_case(rng, cid, tier):
  nl = rng.rint(1, 6)
  naxes_max = rng.choice([1, 2, 2, 3])
  pool = [rng.choice(DIM_POOL) for _ in range(rng.choice([1, 1, 2, 3]))]
  if rng.below(4) == 0:
    pool = [rng.choice([1, 2, 3, 4, 5])]          # small shared dimension: D5-prone region
  rule = rng.choice(RULES)
  mode = rng.choice(MODES)
  nstates = rng.choice([1, 1, 2])
  running_average = bool(rng.below(2)) if nstates > 1 else bool(rng.below(4) == 0)
  layers = []
  names = set()
  for li in range(nl):
    depth = rng.choice([1, 2, 2, 3])
    while True:
      path = ["g%d" % rng.below(3) for _ in range(depth - 1)] + ["L%d" % li] + (
          ["kernel"] if rng.below(3) else [])
      if "/".join(path) not in names:
        break
    names.add("/".join(path))
    if li == 0:
      axes = list(range(naxes_max))
    else:
      axes = [a for a in range(naxes_max) if rng.below(3) != 0] or [rng.below(naxes_max)]
    layers.append(dict(path=path, axes={str(a): None for a in axes}))
  slots = [(l, a) for l in layers for a in l["axes"]]
  scores = gen_scores(rng, len(slots), mode)
  for (l, a), s in zip(slots, scores):
    dim = rng.choice(pool)
    sts, mats = [], []
    same = rng.below(2)
    first = None
    for k in range(nstates):
      if k > 0 and same and first is not None:
        d, m = first
      else:
        sk = s if (k == nstates - 1 or rng.below(2)) else gen_scores(rng, 1, mode if mode != "cancel" else "uniform")[0]
        d, m = data_for(rng, rule, sk)
        first = (d, m)
      sts.append(d)
      mats.append(m)
    l["axes"][a] = dict(dim=dim, dim_via=("dim" if rng.below(3) else "eigvecs"), states=sts,
                        mats=mats)
  maxdim = max(sp["dim"] for l in layers for sp in l["axes"].values())
  r = rng.below(6)
  if r == 0:
    rank = 1
  elif r == 1:
    rank = maxdim + rng.rint(0, 2)
  elif r == 2:
    rank = max(1, maxdim - 1)
  else:
    rank = rng.rint(1, max(1, min(maxdim + 2, 300)))
  return dict(id=cid, layers=layers, rule=rule, running_average=running_average, nstates=nstates,
              rank=rank, mode=mode)


def payload_case(c):
  return dict(id=c["id"], rule=c["rule"], running_average=c["running_average"], nstates=c["nstates"],
              rank=c["rank"],
              layers=[dict(path=l["path"],
                           axes={a: dict(dim=sp["dim"], dim_via=sp["dim_via"], states=sp["states"])
                                 for a, sp in l["axes"].items()}) for l in c["layers"]])


def run_impl(cases):
  n = min(common.NPROC, max(1, len(cases) // 4))
  chunks = [cases[i::n] for i in range(n)]
  outs = common.run_workers_parallel("harness.impl.c17_worker",
                                     [dict(cases=[payload_case(c) for c in ch]) for ch in chunks if ch],
                                     x64=False, timeout=3000)
  res = {}
  for o in outs:
    for r in o["results"]:
      res[r["id"]] = r
  return [res[c["id"]] for c in cases]


# ----------------------------------------------------------------------------------------------
# oracle on the implementation's dictionary
# ----------------------------------------------------------------------------------------------
def spec_of(c):
  """{(path string, axis int): dim}"""
  return {("/".join(l["path"]), int(a)): sp["dim"] for l in c["layers"] for a, sp in l["axes"].items()}


def oracle(c, r):
  fails = []
  if "exc" in r:
    return [dict(clause="exception:" + r["exc"].split(":")[0], detail=r["exc"])]
  out = r["out"]
  spec = spec_of(c)
  layers = set(p for p, _ in spec)
  naxes = len(set(a for _, a in spec))
  if set(out) != layers:
    fails.append(dict(clause="structure", detail="layers %s vs %s" % (sorted(out), sorted(layers))))
    return fails
  groups = {}
  for (p, a), dim in sorted(spec.items()):
    slots = out[p]
    if len(slots) != naxes:
      fails.append(dict(clause="structure", detail="slot count of %s" % p))
      continue
    rk = slots[a]
    if not (1 <= rk <= dim):
      fails.append(dict(clause="range", detail="%s axis %d: rank %d not in [1, %d]" % (p, a, rk, dim)))
    groups.setdefault(dim, []).append(rk)
  for p in layers:
    for a, v in enumerate(out[p]):
      if (p, a) not in spec and v != 0:
        fails.append(dict(clause="structure", detail="non-sketched slot %s[%d] = %d" % (p, a, v)))
  for dim, rs in sorted(groups.items()):
    if sum(rs) > len(rs) * c["rank"]:
      fails.append(dict(clause="budget", detail="dim %d: ranks %s sum %d > %d * %d" % (
          dim, rs, sum(rs), len(rs), c["rank"])))
  return fails


# ----------------------------------------------------------------------------------------------
# model terms
# ----------------------------------------------------------------------------------------------
def model_inputs(c, r):
  """entries in the implementation's enumeration order + observed dictionary in model layout."""
  spec = spec_of(c)
  lid = {}
  raw = []
  for name in r["order"]:
    parts = name.split("/")
    p, a = "/".join(parts[:-2]), int(parts[-1])
    if p not in lid:
      lid[p] = len(lid)
    raw.append((lid[p], a, spec[(p, a)], r["scores"][name]))
  return raw, lid


def rawlit(raw):
  return "[" + "; ".join("(%d, %d, %d, %d)" % t for t in raw) + "]"


def redistlit(pairs):
  return "[" + "; ".join("(%d, %s)" % (l, common.zlist(s)) for l, s in pairs) + "]"


def terms_for(c, r, fixed=True):
  raw, lid = model_inputs(c, r)
  if "exc" in r:
    code = 1 if r["exc"].startswith("AssertionError") else 2
    obs = []
  else:
    code = 0
    obs = [(i, r["out"].get(p, [])) for p, i in sorted(lid.items(), key=lambda kv: kv[1])]
  t_all = "chk_all %s %d %s %d %s" % (blit(fixed), c["rank"], rawlit(raw), code, redistlit(obs))
  # groups as observed
  name_key = {}
  for name in r["order"]:
    parts = name.split("/")
    name_key[name] = (lid["/".join(parts[:-2])], int(parts[-1]))
  gl = "[" + "; ".join("(%d, [%s])" % (d, "; ".join("(%d, %d)" % name_key[n] for n in ns))
                       for d, ns in r["groups"]) + "]"
  t_groups = "chk_groups %s %d %s" % (rawlit(raw), r["num_axes"], gl)
  # score rules
  items = []
  used = range(c["nstates"]) if c["running_average"] else [c["nstates"] - 1]
  exact_rule = c["rule"] in ("tail_rho", "sketch_trace", "ggt_trace")
  for name in r["order"]:
    parts = name.split("/")
    p, a = "/".join(parts[:-2]), parts[-1]
    sp = [l for l in c["layers"] if "/".join(l["path"]) == p][0]["axes"][a]
    mats = [sp["mats"][k] for k in used]
    ml = "[" + "; ".join("[" + "; ".join("[" + "; ".join(common.qlit(v) for v in row) + "]"
                                         for row in m) + "]" for m in mats) + "]"
    tol = "(0 # 1)" if (exact_rule and len(mats) == 1) else TAU
    items.append("(%s, %d, %s)" % (ml, r["scores"][name], tol))
  t_scores = "chk_scores %d [%s]" % (RULE_ID[c["rule"]], "; ".join(items))
  return t_all, t_groups, t_scores


def case_input(c):
  return payload_case(c)


def case_from_input(inp, cid=0):
  """Rebuild a generator-style case (with `mats`) from a replay input."""
  layers = []
  for l in inp["layers"]:
    axes = {}
    for a, sp in l["axes"].items():
      mats = []
      for d in sp["states"]:
        if "tail" in d:
          mats.append([[bf(d["tail"])]])
        elif "eigvals" in d:
          mats.append([[bf(b) for b in d["eigvals"]]])
        else:
          mats.append([[bf(b) for b in row] for row in d["ema_ggt"]])
      axes[a] = dict(dim=sp["dim"], dim_via=sp["dim_via"], states=sp["states"], mats=mats)
    layers.append(dict(path=l["path"], axes=axes))
  return dict(id=cid, layers=layers, rule=inp["rule"], running_average=inp["running_average"],
              nstates=inp["nstates"], rank=inp["rank"], mode=inp.get("mode", "replay"))


# ----------------------------------------------------------------------------------------------
def evaluate(ctx, cases, tag):
  results = run_impl(cases)
  ctx.log("implementation done on %d instances" % len(cases))
  problems = []
  terms, owners = [], []
  for c, r in zip(cases, results):
    c["res"] = r
    if "pre_exc" in r:
      problems.append(dict(kind="impl-violates", clause="exception:" + r["pre_exc"].split(":")[0],
                           case=c, detail=r["pre_exc"]))
      continue
    fails = oracle(c, r)
    nslots = len(r["order"])
    dims = sorted(set(spec_of(c).values()))
    ctx.count("rule=" + c["rule"])
    ctx.count("mode=" + c["mode"])
    ctx.count("layers=%d" % len(c["layers"]))
    ctx.count("axes=%d" % nslots)
    ctx.count("groups=%d" % len(dims))
    ctx.count("running_average=%s,states=%d" % (c["running_average"], c["nstates"]))
    maxdim = max(dims)
    ctx.count("rank:" + ("1" if c["rank"] == 1 else ">=dim" if c["rank"] >= maxdim else "<dim"))
    if "out" in r:
      vals = [v for s in r["out"].values() for v in s if v]
      nontrivial = len(set(vals)) > 1
    else:
      nontrivial = True
    ctx.case(json.dumps(case_input(c), sort_keys=True), nontrivial,
             sample=(dict(rule=c["rule"], rank=c["rank"], mode=c["mode"],
                          dims={"%s:%d" % k: v for k, v in spec_of(c).items()},
                          scores={k: bf(v) for k, v in r["scores"].items()},
                          out=r.get("out"), exc=r.get("exc"))
                     if ctx.cov["evaluations"] % 331 == 0 else None))
    for f in fails:
      ctx.count("oracle_fail:" + f["clause"])
      problems.append(dict(kind="impl-violates", clause=f["clause"], case=c, detail=f["detail"]))
    ta, tg, ts = terms_for(c, r, True)
    terms += [ta, tg, ts]
    owners += [(c, "alloc"), (c, "groups"), (c, "scores")]
  vals = ctx.coq_eval(tag, HEADER, terms, per_shard=300)
  for v, (c, what) in zip(vals, owners):
    if v not in ("true", "false"):
      raise common.CoqError("unexpected verdict %r" % v)
    ctx.count("model_cmp:" + what)
    if v == "false":
      problems.append(dict(kind="correspondence-broken", clause="model!=impl:" + what, case=c))
  return problems


def report(ctx, problems):
  seen = set()
  impl_bad = set(id(p["case"]) for p in problems if p["kind"] == "impl-violates")
  any_impl = bool(impl_bad)
  for p in problems:
    c = p["case"]
    r = c["res"]
    if p["kind"] == "impl-violates":
      sig = ("impl", p["clause"])
      if sig in seen:
        continue
      seen.add(sig)
      ctx.violation("impl-violates", dict(
          input=case_input(c), clause=p["clause"],
          expected="every rank in [1, dim], per-group sum <= group_size * rank, no exception",
          actual=dict(detail=p.get("detail"), out=r.get("out"), exc=r.get("exc"),
                      scores={k: bf(v) for k, v in r.get("scores", {}).items()}),
          theorem_or_check="implementation-side oracle harness/c17.py:oracle (theorem realloc_budget)"))
    else:
      sig = ("corr", p["clause"])
      if sig in seen:
        continue
      seen.add(sig)
      note = ""
      model = None
      if p["clause"].endswith("alloc"):
        try:
          raw, _ = model_inputs(c, r)
          t_orig = terms_for(c, r, False)[0]
          v = ctx.coq_eval("diag%d" % len(seen), HEADER,
                           ["run_all true %d %s" % (c["rank"], rawlit(raw)), t_orig])
          model = v[0]
          if v[1] == "true":
            note = ("the implementation agrees with the ORIGINAL (unrepaired) allocation model: "
                    "the proposed fix c17-reallocation-budget.diff is not applied to this tree")
        except common.CoqError as e:
          model = "coq error %s" % e
      ctx.violation("correspondence-broken", dict(
          input=case_input(c), clause=p["clause"],
          expected="binary32 model of the repaired algorithm == implementation; model gives %s" % model,
          actual=dict(out=r.get("out"), exc=r.get("exc"), order=r.get("order"),
                      groups=r.get("groups"),
                      scores={k: bf(v) for k, v in r.get("scores", {}).items()}),
          note=note,
          theorem_or_check="correspondence C17.Check.chk_%s" % p["clause"].split(":")[-1]),
          no_input=(id(c) not in impl_bad) and not any_impl)


def load_corpus():
  d = os.path.join(common.VERIF, "corpus", "C17")
  out = []
  if os.path.isdir(d):
    for fn in sorted(os.listdir(d)):
      if fn.endswith(".json"):
        rec = json.load(open(os.path.join(d, fn)))
        for inp in rec.get("cases", []):
          c = case_from_input(inp)
          c["mode"] = "corpus"
          out.append(c)
  return out


def setup(ctx):
  ctx.cov["rule"] = (
      "synthetic in-memory optimizer states: 1..6 layers with paths of depth 1..3, 1..3 sketched axes "
      "per layer, dimensions from a pool of 1..3 values out of %s (shared and unshared), dimension "
      "given by a 'dim' entry or by eigvecs.shape[0], float32 scores in modes %s, base rank 1..maxdim+2, "
      "all five scoring rules, 1..2 states with/without running average; every choice from the run's "
      "PRNG.  An instance is distinct by its full input and non-trivial when the returned ranks are "
      "not all equal" % (DIM_POOL, MODES))
  ctx.assumptions += [
      "Coq 8.16.1 kernel + vm_compute (no native_compute, no PrimFloat)",
      "realloc_budget and the exact-arithmetic lemmas are axiom-free; the binary32 instance used by "
      "the correspondence (C17/F32Inst.v) computes with Flocq 4.1 BinarySingleNaN (stdlib real axioms "
      "sig_not_dec, sig_forall_dec, functional_extensionality_dep, classic enter only there)",
      "the float32 scores are taken from the implementation's own score_fn (bit patterns) and the "
      "enumeration order of the Python set `layer_names` is observed, both are inputs of the model; "
      "the score rules are compared separately (exact for additive rules on one state, tau_f32 = 2^-17 "
      "relative for ratio rules and state averages; ggt_intrinsic_rank only on diagonal PSD data)",
      "the leftover loop / rd / grp_info are not translated by tools/py2v.py (inline statements with "
      "break and dict mutation); tied by correspondence only",
      "XLA:CPU float32 semantics (DAZ/FTZ, true division of scalars, x // 1 = floor) as observed"]
  return ctx.proofs(PROOF_FILES, extra_targets=EXTRA_TARGETS, dirs=["C11"])


def run(ctx):
  setup(ctx)
  ctx.notes.append(
      "the model is the REPAIRED allocation (proposed fix /verif/proposed_fixes/c17-reallocation-budget.diff: "
      "clamp every proportional allocation to [0, remaining resource], count every increment of the "
      "leftover pass).  On a tree without the fix the check reports impl-violates (defect D5: budget "
      "exceeded, ranks < 1, internal AssertionError) with the concrete instance; the unrepaired loop is "
      "modelled as well (realloc_sorted false ..., theorem leftover_pass_budget_refuted) and agrees bit for "
      "bit with the unrepaired implementation")
  n = 2000 if ctx.tier == "quick" else 20000
  cases = load_corpus()
  ncorpus = len(cases)
  for i in range(n):
    cases.append(gen_case(ctx.rng, 0, ctx.tier))
  for i, c in enumerate(cases):
    c["id"] = i
  ctx.log("%d instances (%d corpus)" % (len(cases), ncorpus))
  problems = []
  B = 6000
  for k in range(0, len(cases), B):
    problems += evaluate(ctx, cases[k:k + B], "corr%d" % (k // B))
  report(ctx, problems)
  ctx.flush_proof_failures()


def replay(ctx, rec):
  inp = rec.get("input")
  if not isinstance(inp, dict) or "layers" not in inp:
    print("replay: nothing executable in this record (%s)" % rec.get("theorem_or_check"))
    return 1
  ctx.proofs(PROOF_FILES, extra_targets=EXTRA_TARGETS, dirs=["C11"])
  c = case_from_input(inp)
  problems = evaluate(ctx, [c], "replay")
  for p in problems:
    print(json.dumps(dict(kind=p["kind"], clause=p["clause"], detail=p.get("detail")), indent=1))
  print("implementation output:", json.dumps({k: v for k, v in c["res"].items() if k != "id"})[:3000])
  print("REPLAY %s" % ("reproduces" if problems else "does not reproduce"))
  return 1 if problems else 0
