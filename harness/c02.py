"""C02 — Distributed Shampoo update equals the documented blocked-Shampoo math.

Deciding method: Coq theorems (Properties/C02.v) about the documented formulas (statistics closed
form, arithmetic blend = switch, momentum / Nesterov / weight-decay order, linearity in a decoupled
learning rate, exponent) + an executable Gallina model of one parameter's update (C02.Model) whose
shape logic is C06.Ref, regenerated from /repo's source on every run.  Tie: public init/update API,
float32 trees under x64; per step and per leaf Coq (vm_compute, exact dyadics) recomputes from the
implementation's own previous state: (a) the statistics, (b) checks every refreshed preconditioner
against the root spec (C01 certificate, ridge from the stored metrics), (c) takes the stored
preconditioners as oracle answers and recomputes update and next state."""
import json
import math

import numpy as np

from harness import common
from harness.common import dylit, dylist, dymat, zlit, zlist, blit

HEADER = ("From Precond Require Import Base.PyLib Base.QMat Base.PyFloat C06.Records C06.Ref C09.Check "
          "C01.Check C02.Records C02.Ref C02.Model C02.Check.\nOpen Scope Q_scope.\n")
TOL = "(1 # 131072)"          # 2^-17 (float32 arithmetic in the implementation)
U64 = 2.0 ** -53
U32 = 2.0 ** -24
CODES = {1: "statistics differ from w1*S + w2*G_(i)G_(i)^T (or changed off-schedule)",
         2: "update differs from the documented formula",
         3: "diagonal (grafting) statistics differ", 4: "grafting momentum differs",
         5: "shampoo momentum differs",
         6: "number of statistics / preconditioners differs from the announced count"}


def q(x):
  return "(dy2q %s)" % dylit(x)


def dv(v):
  return "(dyvec %s)" % dylist(v)


def mats(ms):
  return "[" + "; ".join("dymat %s" % dymat(m) for m in ms) + "]"


def cfg_term(case, lr_t):
  return ("(mkcfg %s %s %s %s %s %s %s %s %s %s %s %s %s %s %s %s %s %s %s)" % (
      # hyper-parameters are Python doubles in the implementation (rounded to float32 only where they
      # meet an array), so they enter the model as exact doubles: 1 - beta2 is then the same number
      q(case["beta1"]), q(case["beta2"]), q(lr_t), q(case["wd"]),
      blit(case["dec_wd"]), blit(case["dec_lr"]), blit(case["nesterov"]), blit(case["moving_avg"]),
      "(%d)%%Z" % case["graft"], q(case["diag_eps"]), "(%d)%%Z" % case["start"],
      "(%d)%%Z" % case["scs"], "(%d)%%Z" % case["block"], "(%d)%%Z" % case["merge"],
      blit(case["best_effort"]), "(%d)%%Z" % case["ptype"], "(%d)%%Z" % case["expo"],
      "(%d)%%Z" % case["skip_rank_lt"], "(%d)%%Z" % case["skip_dim_gt"]))


def zl(xs):
  return "[" + "; ".join("(%d)%%Z" % x for x in xs) + "]"


def leaf_term(case, st, lf):
  b, a = lf["before"], lf["after"]
  return "chk_leaf %s %s %s (%d)%%Z %s %s %s %s (mkps %s %s %s) %s %s (mkps %s %s %s) %s" % (
      TOL, q(1e-25), cfg_term(case, st["lr"]), st["count_before"], zl(lf["shape"]), dv(lf["param"]),
      dv(lf["grad"]), mats(b["stats"]), dv(b["diag"]), dv(b["dmom"]), dv(b["mom"]),
      mats(a["stats"]), mats(a["preconds"]), dv(a["diag"]), dv(a["dmom"]), dv(a["mom"]),
      dv(lf["update"]))


def model_shapes(case, shape):
  """Python mirror used only to pick the exponent for the certificate (the Coq side recomputes
  everything it decides from C06.Ref)."""
  def merge(sh, m):
    if sh and all(d == 1 for d in sh):
      return [1]
    out, prod = [], 1
    for d in sh:
      if prod * d <= m:
        prod *= d
      else:
        if prod > 1:
          out.append(prod)
        prod = d
    if prod > 1:
      out.append(prod)
    return out
  tsh = merge(shape, case["merge"]) if case["best_effort"] else list(shape)
  rank = len(tsh)
  if case["ptype"] == 1 or rank <= 1:
    k = rank
  elif case["ptype"] == 2:
    k = rank - 1
  else:
    k = 1
  return tsh, (case["expo"] if case["expo"] else 2 * k)


def root_terms(case, st, lf):
  """Certificates for preconditioners refreshed at this step."""
  out = []
  a, b = lf["after"], lf["before"]
  if "err" not in a or not a["stats"]:
    return out
  if st["count_before"] % case["pcs"] != 0:
    return out
  _, p = model_shapes(case, lf["shape"])
  for j, (S, P) in enumerate(zip(a["stats"], a["preconds"])):
    err = a["err"][j]
    if not (err == err) or err >= case["thr"]:
      continue
    if P == b["preconds"][j]:
      pass  # may legitimately coincide; still certify
    n = len(S)
    Sn = np.array(S)
    if case["eigh"]:
      # max_eigen_value is not reported on the eigh path: ridge reconstructed from the statistics
      lam = np.linalg.eigvalsh((Sn + Sn.T) / 2)
      maxev = float(max(lam.max(), 0.0))
      # the estimate the routine itself used, recomputed by its own power_iteration on this statistic
      est = a["maxev_pi"][j] if "maxev_pi" in a else maxev
      d = case["mat_eps"] * max(est, 1e-6)
    else:
      maxev = a["maxev"][j]
      d = case["mat_eps"] * max(maxev, 1e-25) * (10.0 ** max(int(a["retries"][j]) - 1, 0))
      lam = np.linalg.eigvalsh((Sn + Sn.T) / 2)
    lmax, lmin = float(max(lam.max(), 0)), float(max(lam.min(), 0))
    kappa = 2.0 * (lmax + d) / max(lmin + d, 1e-300)
    Pn = np.array(P)
    xp = np.linalg.matrix_power(Pn, p)
    # preconditioners are stored in float32: X^p(A+dI) moves by ~ p * 2^-24 * kappa-ish relative
    slack = (2.0 ** -22) * max(err, 0) + (2.0 ** -22) * d * float(np.abs(xp).max()) + \
        64.0 * n * p * U64 * kappa + 8.0 * n * p * U32 * float(np.abs(xp).max()) * (lmax + d) \
        + 4.0 * U32 * maxev * float(np.abs(xp).max()) * case["mat_eps"]
    if case["eigh"]:
      # the eigh path does not report the power-iteration estimate that scales its ridge.  The estimate is
      # a Rayleigh quotient accepted once it moves by <= 1e-6 (absolute) per iteration, so for statistics of
      # small magnitude or clustered eigenvalues it can be anywhere in [lmin, lmax]; it is therefore
      # recomputed by a direct call of the same routine (see the worker).  The loop's exit test may flip by
      # rounding between the batched and the direct evaluation, which moves the estimate by about the
      # tolerance: the ridge is known up to mat_eps * min(lmax - lmin, 4e-6)
      slack += 2.0 * case["mat_eps"] * min(lmax - lmin, 4e-6) * float(np.abs(xp).max())
    tau = 64.0 * n * p * U64 * kappa + 4 * U32
    out.append(("root", "root_cert %s %s %s %s %d%%nat %d%%nat %d%%positive (dymat %s) (dymat %s)" % (
        q(tau), q(slack), q(max(err, 0.0)), q(d), n, n, p, dymat(P), dymat(S)), j))
  return out


def gen_cases(ctx):
  rng = ctx.rng
  quick = ctx.tier == "quick"
  n = 110 if quick else 2200
  cases = []
  shape_pool = [[], [3], [4], [1], [2, 3], [3, 3], [4, 2], [2, 1], [2, 2, 2], [3, 2, 2], [2, 1, 3],
                [2, 2, 1, 2], [5], [4, 4], [2, 5]]
  for i in range(n):
    k = rng.rint(1, 3)
    shapes = [rng.choice(shape_pool) for _ in range(k)]
    c = dict(seed=rng.next(), shapes=shapes, T=rng.rint(2, 4 if quick else 5),
             block=rng.choice([2, 3, 4, 8]), beta1=rng.choice([0.0, 0.5, 0.9]),
             beta2=rng.choice([1.0, 0.5, 0.75, 0.999]), diag_eps=rng.choice([1e-10, 0.0078125]),
             mat_eps=rng.choice([1e-6, 9.5367431640625e-07, 1e-4]),
             wd=rng.choice([0.0, 0.0, 0.25, 0.01]), start=rng.rint(0, 3),
             pcs=rng.choice([1, 1, 2]), scs=rng.choice([1, 1, 2]),
             best_effort=bool(rng.below(2)), graft=rng.below(7), nesterov=bool(rng.below(2)),
             expo=rng.choice([0, 0, 0, 2, 3]), thr=0.1, moving_avg=bool(rng.below(2)),
             skip_dim_gt=rng.choice([4096, 4096, 3]), skip_rank_lt=rng.choice([1, 1, 2]),
             merge=rng.choice([4096, 4, 6, 2]), ptype=rng.choice([1, 1, 2, 3]),
             dec_lr=bool(rng.below(2)), dec_wd=bool(rng.below(2)), eigh=bool(rng.below(3) == 0),
             lr=rng.choice([0.25, 0.125, 0.1]), lr_schedule=bool(rng.below(4) == 0),
             hist=rng.choice(["int", "normal", "zero_some", "scale"]))
    # magnitude of the gradients for hist == "scale" (ridge / epsilon handling is scale dependent)
    c["gscale"] = rng.choice([2.0 ** -10, 1e-3, 1e-2, 1e2, 1e3, 2.0 ** 10])
    cases.append(c)
  # the same documented math under jax.pmap (2 replicas, replicated inputs): trees with more statistics
  # than devices, compared replica by replica with the un-pmapped run the model validates (added after a
  # seeded change that dealt the statistics to the devices in a different order was missed here)
  for c in cases[:8 if quick else 80]:
    if len(c["shapes"]) >= 2 and not c["eigh"]:
      c["pmap"] = 2
  return cases


def run_impl(cases):
  n = common.NPROC
  plain = [{k: v for k, v in c.items() if k != "pmap"} for c in cases]
  chunks = [c for c in (plain[i::n] for i in range(n)) if c]
  res = common.run_workers_parallel("harness.impl.c02_worker", [dict(cases=c) for c in chunks],
                                    x64=True, timeout=3000)
  results = [r for o in res for r in o["results"]]
  # the pmap comparisons run in their own short-lived processes, a few cases each (a worker that had
  # compiled dozens of two-device programs next to hundreds of plain ones was killed by a segmentation
  # fault in the thorough tier)
  # only trees in which at least one parameter is preconditioned: with no statistics at all the pmapped
  # update of today's tree kills the process inside XLA's compiler (known finding C02-P1, probed
  # separately by known_finding_probe)
  with_stats = {r["case"]["seed"] for r in results
                if "steps" in r and any(lf["after"]["stats"] for lf in r["steps"][0]["leaves"])}
  pm = [c for c in cases if c.get("pmap") and c["seed"] in with_stats]
  if pm:
    pchunks = [pm[i:i + 3] for i in range(0, len(pm), 3)]
    pres = common.run_workers_parallel("harness.impl.c02_worker", [dict(cases=c) for c in pchunks],
                                       x64=True, devices=2, timeout=3000)
    by_seed = {r["case"]["seed"]: r for o in pres for r in o["results"]}
    for r in results:
      pr = by_seed.get(r["case"]["seed"])
      if pr is not None:
        r["case"] = pr["case"]
        if "pmap" in pr:
          r["pmap"] = pr["pmap"]
        elif "exc" in pr and "exc" not in r:
          r["exc"] = "under pmap: " + pr["exc"]
  return results


def evaluate(ctx, results, tag):
  terms, idx = [], []
  for i, r in enumerate(results):
    if "exc" in r:
      continue
    n0 = len(terms)
    try:
      for st in r["steps"]:
        for li, lf in enumerate(st["leaves"]):
          terms.append(leaf_term(r["case"], st, lf))
          idx.append((i, st["t"], li, "leaf", None))
          for name, t, j in root_terms(r["case"], st, lf):
            terms.append(t)
            idx.append((i, st["t"], li, name, j))
    except ValueError as e:
      # a NaN / Inf in the update or the state has no dyadic form; the gradients are finite, so
      # this is a violation on the implementation with this case as the failing input
      del terms[n0:], idx[n0:]
      r["exc"] = "non-finite value in the update or optimizer state for finite gradients (%s)" % e
  ctx.log("%d Coq evaluations" % len(terms))
  vals = ctx.coq_eval(tag, HEADER, terms, per_shard=30, timeout=2400)
  out = []
  for key, v in zip(idx, vals):
    out.append((key, int(v.replace("%Z", "").strip("()"))))
  return out


def report(ctx, results, verdicts):
  fails = {}
  for (i, t, li, name, j), code in verdicts:
    ctx.count("coq:" + name)
    if code != 0:
      fails.setdefault(i, []).append((t, li, name, j, code))
  seen = set()
  for i, r in enumerate(results):
    c = r["case"]
    key = json.dumps(c, sort_keys=True)
    if "exc" in r:
      ctx.case(key, False)
      ctx.count("exception")
      sig = ("exc", r["exc"][:60])
      if sig not in seen:
        seen.add(sig)
        ctx.violation("impl-violates", dict(input=c, expected="init/update run", actual=r["exc"],
                                            trace=r.get("trace"),
                                            theorem_or_check="harness/impl/c02_worker.py"))
      continue
    ctx.case(key, True, sample=dict(case=c) if ctx.cov["evaluations"] % 37 == 0 else None)
    pm = r.get("pmap")
    if pm and "worst" in pm:
      ctx.count("pmap runs compared with the plain run")
      if not pm["worst"] <= 1e-3 and ("pmap",) not in seen:
        seen.add(("pmap",))
        ctx.violation("impl-violates", dict(
            input=c, expected="under jax.pmap every replica's update equals the update of the un-pmapped run "
            "(which the model validates) to 1e-3 relative", actual=pm,
            theorem_or_check="pmap replica vs plain run (harness/impl/c02_worker.py:pmap_vs_plain)"))
    for k in ("graft", "beta2", "ptype", "expo", "nesterov", "dec_lr", "dec_wd", "eigh", "best_effort"):
      ctx.count("%s=%s" % (k, c[k]))
    # structural: update tree like params
    for st in r["steps"]:
      for lf in st["leaves"]:
        if lf["upd_shape"] != lf["shape"] or lf["upd_dtype"] != "float32":
          sig = ("updshape",)
          if sig not in seen:
            seen.add(sig)
            ctx.violation("impl-violates", dict(input=c, step=st["t"], leaf=lf["name"],
                                                expected="update shaped/typed like the parameter",
                                                actual=[lf["upd_shape"], lf["upd_dtype"]],
                                                theorem_or_check="update tree contract"))
    for (t, li, name, j, code) in fails.get(i, []):
      sig = (name, code)
      if sig in seen:
        continue
      seen.add(sig)
      lf = r["steps"][t]["leaves"][li]
      if name == "leaf":
        ctx.violation("impl-violates", dict(
            input=c, step=t, leaf=lf["name"], leaf_shape=lf["shape"], code=code,
            expected="chk_leaf = 0", actual=CODES.get(code, str(code)),
            theorem_or_check="C02.Check.chk_leaf (model C02.Model over C06.Ref); theorems c02_*"))
      else:
        ctx.violation("impl-violates", dict(
            input=c, step=t, leaf=lf["name"], statistic=j, code=code,
            expected="stored preconditioner is the inverse p-th root of its (ridge-regularised) "
                     "statistics to the reported accuracy",
            actual={1: "wrong shape / padding", 2: "not symmetric",
                    3: "P^p (S + d I) - I exceeds reported error + slack "
                       "(wrong exponent, wrong statistics or stale root)"}.get(code),
            theorem_or_check="C01.Check.root_cert on the optimizer's stored state"))


P1_WITNESS = dict(seed=1, shapes=[[2, 5], [4, 4]], T=1, block=3, beta1=0.9, beta2=0.999, diag_eps=1e-10,
                  mat_eps=1e-6, wd=0.0, start=0, pcs=1, scs=1, best_effort=False, graft=1, nesterov=False,
                  expo=0, thr=0.1, moving_avg=False, skip_dim_gt=3, skip_rank_lt=1, merge=2, ptype=1,
                  dec_lr=False, dec_wd=False, eigh=False, lr=0.25, lr_schedule=False, hist="normal",
                  gscale=1.0, pmap=2)


def known_finding_probe(ctx):
  """C02-P1: jax.pmap on 2 devices, every parameter excluded from preconditioning (no statistics) and
  training metrics on (default): the process dies with a segmentation fault while XLA compiles the
  pmapped update.  The witness runs in its own process; the KNOWN-FINDING line is printed only while the
  entry is open in known_findings.json and the witness still crashes."""
  kf = [k for k in common.load_known_findings("C02") if k.get("id") == "C02-P1" and k.get("status", "open") == "open"]
  if not kf:
    return
  try:
    out = common.run_worker("harness.impl.c02_worker", dict(cases=[P1_WITNESS]), x64=True, devices=2, timeout=900)
    r = out["results"][0]
    if "exc" in r:
      ctx.violation("impl-violates", dict(input=P1_WITNESS, expected="the witness of C02-P1 either runs or crashes "
                                          "the process as recorded", actual=r["exc"],
                                          theorem_or_check="known finding C02-P1 witness"))
  except RuntimeError as e:
    if "rc=-11" in str(e) or "rc=139" in str(e):
      ctx.known("C02-P1 %s" % kf[0]["title"])
    else:
      raise


def translator_obligation(ctx):
  """Regenerate the Gallina translation of _transform_grad from /repo and re-prove it equal to the
  reference C02.Ref.transform_grad the theorems and the per-step check use."""
  from tools import targets
  text, errors = targets.generate_c02(common.REPO)
  ctx.cov["obligations"] += 2
  if errors:
    ctx.proof_failure("translate _transform_grad", json.dumps(errors))
    return
  text = text.replace("C02.Records.", "C02.Records.")
  ok, out = ctx.gen_obligation("Gen", text)
  if not ok:
    ctx.proof_failure("compile gen/C02/Gen.v (translation of _transform_grad)", out[-2000:])
    return
  ctx.cov["discharged"] += 1
  names = " ".join(n for n, _ in targets.TG_PARAMS)
  ob = ("From Precond Require Import Base.PyLib Base.QMat Base.PyFloat C02.Records.\n"
        "From Precond Require C02.Ref.\nFrom PrecondGen Require C02.Gen.\n"
        "Lemma gen_eq_transform_grad : forall %s, C02.Gen.transform_grad %s = C02.Ref.transform_grad %s.\n"
        "Proof. intros. reflexivity. Qed.\n" % (names, names, names))
  ok, out = ctx.gen_obligation("GenEq_transform_grad", ob)
  if ok:
    ctx.cov["discharged"] += 1
  else:
    ctx.proof_failure("GenEq_transform_grad (Gen.transform_grad = Ref.transform_grad)", out[-2000:])


def run(ctx):
  ctx.cov["rule"] = (
      "random configurations over graft type (7) x beta1 x beta2 (incl. 1) x nesterov x moving "
      "average x weight decay x decoupling x lr decoupling / schedule x block size x merging x "
      "preconditioner type x exponent override x start step x statistics / preconditioner intervals "
      "x skip rules x Newton/eigh, on trees of 1-3 leaves of rank 0-4, histories of 2-5 steps; "
      "every (configuration, step, leaf) is one Coq evaluation; distinct by generator parameters")
  ctx.assumptions += [
      "Coq 8.16.1 kernel + vm_compute", "tools/py2v.py translator ties C06.Ref (shape logic used by "
      "the model) to the source",
      "matrix roots are oracles: stored preconditioners are checked by the C01 certificate "
      "(slack as in C01 plus float32 storage terms) and then used as given",
      "float32 rounding of the implementation absorbed by the relative tolerance 2^-17",
      "quantized / pmap / sharded modes are not exercised here (C11, C13, C03 cover their plumbing)"]
  ctx.proofs(["Properties/C02.v"], extra_targets=["theories/C02/Check.vo"], dirs=["C06", "C09", "C01"])
  translator_obligation(ctx)
  cases = gen_cases(ctx)
  ctx.log("%d configurations" % len(cases))
  known_finding_probe(ctx)
  results = run_impl(cases)
  verdicts = evaluate(ctx, results, "c02")
  report(ctx, results, verdicts)


def replay(ctx, rec):
  c = rec.get("input")
  if not isinstance(c, dict) or "shapes" not in c:
    print("replay: nothing executable in this record")
    return 1
  ctx.proofs(["Properties/C02.v"], extra_targets=["theories/C02/Check.vo"], dirs=["C06", "C09", "C01"])
  results = run_impl([c])
  if "exc" in results[0]:
    print(results[0]["exc"])
    print("REPLAY reproduces")
    return 1
  verdicts = evaluate(ctx, results, "replay")
  bad = [(k, v) for k, v in verdicts if v != 0]
  print("failing:", bad[:10])
  print("REPLAY %s" % ("reproduces" if bad else "does not reproduce"))
  return 1 if bad else 0
