"""C12 — SM3 accumulators cover the true second moment.

Deciding method: Coq theorems (Properties/C12.v) about C12.Model (index-function tensors of any
rank, one accumulator function per axis): cover, monotonicity on reachable states (beta2 = 1),
rank-1 = diagonal AdaGrad/RMSProp, squared step-size comparison -- all histories, all shapes.
Tie to /repo/precondition/sm3.py: public-API correspondence.  For every generated history the
implementation's accumulators after every step are compared, inside Coq on exact rationals, with
the model's step applied to the observed previous accumulators (exactly for integer gradients and
beta2 in {1, 1/2}; within tau_f32 = 2^-17 relative otherwise), and the property is evaluated
directly on the implementation's outputs both in Coq (C12.Check) and by an independent oracle
with exact Fractions.
"""
import itertools
import json
import os
from fractions import Fraction

from harness import common
from harness.common import qlit, zlist

HEADER = ("From Precond Require Import C12.Model C12.Check.\n"
          "Open Scope Q_scope.\n")
TAU = Fraction(1, 2 ** 17)        # tau_f32 of DESIGN section 3
TAU_U2 = Fraction(1, 2 ** 14)     # squared update (8 * tau: ~7 roundings, squared)
PROPS = ["Properties/C12.v"]
EXTRA = ["theories/C12/Check.vo"]


# ----------------------------------------------------------------------------------------------
# generation
# ----------------------------------------------------------------------------------------------
def all_shapes(max_rank, dims):
  for r in range(1, max_rank + 1):
    for s in itertools.product(dims, repeat=r):
      yield list(s)


def f32(x):
  import struct
  return struct.unpack("<f", struct.pack("<f", float(x)))[0]


def gen_case(rng, cid, shape, tier):
  n = 1
  for d in shape:
    n *= d
  exact = rng.below(2) == 0
  tmax = 6 if tier == "quick" else 8
  T = rng.rint(1, tmax)
  c = dict(id=cid, shape=shape, exact=exact, jit=(rng.below(5) == 0))
  c["beta1"] = rng.choice([0.0, 0.0, 0.9])
  c["params"] = [float(rng.rint(-4, 4)) / 2.0 for _ in range(n)]
  if exact:
    c["beta2"] = rng.choice([1.0, 0.5])
    c["eps"] = 2.0 ** -10
    c["lr"] = 0.25
    c["wd"] = rng.choice([0.0, 0.0, 0.5])
    c["normalize"] = False
    kind = rng.choice(["int4", "int4", "sparse", "onehot", "const"])
    grads = []
    for _ in range(T):
      if rng.below(6) == 0:
        grads.append([0.0] * n)
      elif kind == "int4":
        grads.append([float(rng.rint(-8, 7)) for _ in range(n)])
      elif kind == "sparse":
        grads.append([float(rng.rint(-8, 7)) if rng.below(4) == 0 else 0.0 for _ in range(n)])
      elif kind == "onehot":
        k = rng.below(n)
        grads.append([float(rng.rint(1, 15)) if i == k else 0.0 for i in range(n)])
      else:
        v = float(rng.rint(-8, 7))
        grads.append([v] * n)
    c["kind"] = kind
  else:
    c["beta2"] = rng.choice([1.0, 0.5, 0.999, 0.9, 0.25])
    c["eps"] = rng.choice([1e-10, 1e-3])
    c["lr"] = rng.choice([0.1, 0.25])
    c["wd"] = rng.choice([0.0, 0.0, 0.01])
    c["normalize"] = (rng.below(3) == 0) and n <= 64
    scale = rng.choice([1e-3, 1.0, 1.0, 1e3])
    kind = rng.choice(["normal", "normal", "sparse", "axis"])
    grads = []
    for _ in range(T):
      if rng.below(8) == 0 and not c["normalize"]:
        grads.append([0.0] * n)
      elif kind == "normal":
        grads.append([f32(rng.normal() * scale) for _ in range(n)])
      elif kind == "sparse":
        grads.append([f32(rng.normal() * scale) if rng.below(4) == 0 else 0.0 for _ in range(n)])
      else:  # one hyper-plane of the tensor is large
        ax = rng.below(len(shape))
        j = rng.below(shape[ax])
        g = []
        for ix in itertools.product(*[range(d) for d in shape]):
          g.append(f32(rng.normal() * scale * (100.0 if ix[ax] == j else 1.0)))
        grads.append(g)
    c["kind"] = kind + "*%g" % scale
  c["grads"] = grads
  return c


def gen_cases(ctx):
  rng = ctx.rng
  quick = ctx.tier == "quick"
  shapes = []
  low = list(all_shapes(2, [1, 2, 3, 4]))
  r3 = [s for s in all_shapes(3, [1, 2, 3, 4]) if len(s) == 3]
  r4 = [s for s in all_shapes(4, [1, 2, 3, 4]) if len(s) == 4]
  if quick:
    shapes = low * 6 + rng.shuffle(r3)[:48] * 2 + rng.shuffle(r4)[:40] * 2 + [[5], [7], [6, 5], [2, 5, 3]] * 4
  else:
    shapes = low * 20 + r3 * 6 + r4 * 4 + [[5], [7], [6, 5], [2, 5, 3], [8, 8], [16], [5, 1, 5]] * 10
  cases = []
  for k, s in enumerate(shapes):
    cases.append(gen_case(rng, k, list(s), ctx.tier))
  return cases


# ----------------------------------------------------------------------------------------------
# Coq term
# ----------------------------------------------------------------------------------------------
def qlist(xs):
  return "[" + "; ".join(qlit(x) for x in xs) + "]"


def qll(xss):
  return "[" + "; ".join(qlist(xs) for xs in xss) + "]"


def eff_grads(case, res):
  """gradient the accumulators are built from (normalised one when normalize_grads)."""
  if case["normalize"]:
    return [st["gn"] for st in res["steps"]]
  return case["grads"]


def term_for(case, res):
  tau = 0 if case["exact"] else TAU
  use_u = (case["beta1"] == 0.0 and case["wd"] == 0.0)
  steps = []
  for g, st in zip(eff_grads(case, res), res["steps"]):
    u = st["upd"] if use_u else []
    steps.append("(%s, %s, %s)" % (qlist(g), qll(st["acc"]), qlist(u)))
  return "chk_history %s%%Z %s %s %s %s %s %s [%s]" % (
      zlist(case["shape"]), qlit(case["beta2"]), qlit(f32(case["lr"])), qlit(f32(case["eps"])),
      qlit(Fraction(tau)), qlit(TAU_U2), qll(res["init_acc"]), "; ".join(steps))


CODES = {1: "accumulators differ from the model step", 2: "cover violated", 3: "monotonicity violated",
         4: "update differs from -lr*g/sqrt(nu+eps)", 5: "squared step exceeds exact AdaGrad/RMSProp",
         6: "initial accumulators not zero"}
PROPERTY_CODES = (2, 3, 5)


# ----------------------------------------------------------------------------------------------
# implementation-side property oracle (exact Fractions; independent of the Coq model)
# ----------------------------------------------------------------------------------------------
def oracle(case, res):
  """Returns (violations, info): property C12 evaluated directly on the implementation's outputs."""
  import math
  shape = case["shape"]
  rank = len(shape)
  idxs = list(itertools.product(*[range(d) for d in shape]))
  n = len(idxs)
  tau = Fraction(0) if case["exact"] else TAU
  beta = Fraction(case["beta2"])
  w = Fraction(1) if case["beta2"] == 1.0 else 1 - beta
  eps = Fraction(f32(case["eps"]))
  lr = Fraction(f32(case["lr"]))
  bad, corr = [], []
  info = dict(strict_cover=0, entries=0)
  if len(res["init_acc"]) != rank or any(len(a) != d for a, d in zip(res["init_acc"], shape)):
    corr.append("initial accumulators are not one vector per axis")
    return bad, corr, info
  if any(v != 0.0 for a in res["init_acc"] for v in a):
    corr.append("initial accumulators not zero")
  e = [Fraction(0)] * n
  prev = [[Fraction(v) for v in a] for a in res["init_acc"]]
  gs = eff_grads(case, res)
  for t, (g, st) in enumerate(zip(gs, res["steps"])):
    if st["acc_shapes"] != [[d] for d in shape]:
      corr.append("step %d: accumulator shapes %s" % (t, st["acc_shapes"]))
      break
    if st["upd_shape"] != list(shape) or st["count"] != t + 1:
      corr.append("step %d: update shape/count wrong" % t)
    if case["normalize"]:
      raw = case["grads"][t]
      nrm = math.sqrt(sum(float(x) * float(x) for x in raw))
      for x, y in zip(raw, g):
        ref = float(x) / (nrm + 1e-16)
        if abs(ref - y) > float(TAU) * abs(ref) + 1e-37:
          corr.append("step %d: normalised gradient %r vs %r" % (t, y, ref))
          break
    gf = [Fraction(x) for x in g]
    acc = [[Fraction(v) for v in a] for a in st["acc"]]
    e = [beta * ei + w * x * x for ei, x in zip(e, gf)]
    # cover
    for k, ix in enumerate(idxs):
      m = min(acc[i][ix[i]] for i in range(rank))
      info["entries"] += 1
      if e[k] < m:
        info["strict_cover"] += 1
      if e[k] > m * (1 + tau):
        bad.append("step %d: cover violated at %s: exact %s > min accumulator %s" %
                   (t, list(ix), float(e[k]), float(m)))
        break
    # monotone
    if case["beta2"] == 1.0:
      for i in range(rank):
        for j in range(shape[i]):
          if acc[i][j] < prev[i][j]:
            bad.append("step %d: accumulator[%d][%d] decreased %s -> %s with beta2=1" %
                       (t, i, j, float(prev[i][j]), float(acc[i][j])))
            break
    # rank 1 == AdaGrad / RMSProp
    if rank == 1:
      for j in range(shape[0]):
        if abs(acc[0][j] - e[j]) > tau * e[j]:
          bad.append("step %d: rank-1 accumulator[%d]=%s differs from exact %s" %
                     (t, j, float(acc[0][j]), float(e[j])))
          break
    # step size vs exact AdaGrad/RMSProp (squared), plain SM3 step only
    upd = [Fraction(v) for v in st["upd"]]
    if case["beta1"] == 0.0 and case["wd"] == 0.0:
      for k in range(n):
        lim = lr * lr * gf[k] * gf[k] / (e[k] + eps)
        if upd[k] * upd[k] > lim * (1 + TAU_U2):
          bad.append("step %d: squared step %s exceeds exact AdaGrad/RMSProp %s at %s" %
                     (t, float(upd[k] * upd[k]), float(lim), list(idxs[k])))
          break
    # update value (float64 reference from the observed previous accumulators)
    b = float(case["beta2"])
    wf = 1.0 if b == 1.0 else 1.0 - b
    b1 = float(case["beta1"])
    w1 = 1.0 if b1 == 1.0 else 1.0 - b1
    for k, ix in enumerate(idxs):
      m = min(float(prev[i][ix[i]]) for i in range(rank))
      nu = b * m + wf * float(g[k]) ** 2
      pg = float(g[k]) / math.sqrt(nu + float(eps)) if (nu + float(eps)) > 0 else float("nan")
      mom = b1 * st["mom_prev"][k] + w1 * pg
      wdp = case["wd"] * case["params"][k] if case["wd"] > 0.0 else 0.0
      ref = -float(lr) * (mom + wdp)
      scale = float(lr) * (abs(b1 * st["mom_prev"][k]) + abs(w1 * pg) + abs(wdp))
      if not abs(st["upd"][k] - ref) <= float(TAU) * scale + 1e-37:
        corr.append("step %d: update[%s]=%r, reference %r" % (t, list(ix), st["upd"][k], ref))
        break
    prev = acc
    if bad:
      break
  return bad, corr, info


# ----------------------------------------------------------------------------------------------
def run_cases(ctx, cases, tag="corr"):
  n = common.NPROC
  chunks = [c for c in (cases[i::n] for i in range(n)) if c]
  outs = common.run_workers_parallel("harness.impl.c12_worker", [dict(cases=c) for c in chunks],
                                     timeout=3000)
  byid = {}
  for o in outs:
    for r in o["results"]:
      byid[r["id"]] = r
  results = [byid[c["id"]] for c in cases]
  terms, idx = [], []
  for i, (c, r) in enumerate(zip(cases, results)):
    if "exc" in r:
      continue
    ok_shapes = all(st["acc_shapes"] == [[d] for d in c["shape"]] for st in r["steps"])
    if not ok_shapes:
      continue
    try:
      terms.append(term_for(c, r))
    except ValueError as e:      # NaN / Inf has no dyadic form: reported with the case as failing input
      r["exc"] = "non-finite value in the implementation's output for finite input (%s)" % e
      continue
    idx.append(i)
  vals = ctx.coq_eval(tag, HEADER, terms, per_shard=max(4, len(terms) // (3 * common.NPROC) + 1))
  for i, v in zip(idx, vals):
    m = v.replace("%Z", "").strip()
    results[i]["coq_code"] = int(m)
  return results


def judge(ctx, case, res, reported, known):
  """Apply the verdict protocol to one case.  Returns True if something was reported."""
  if "exc" in res:
    sig = ("exc", res["exc"][:60])
    if sig not in reported:
      reported.add(sig)
      ctx.violation("impl-violates", dict(
          input=case, expected="sm3 init/update runs on a rank>=1 tensor", actual=res["exc"],
          theorem_or_check="harness/impl/c12_worker.py (public API)"))
    return True
  bad, corr, info = oracle(case, res)
  code = res.get("coq_code")
  ctx.count("entries_checked", info["entries"])
  ctx.count("entries_strictly_covered", info["strict_cover"])
  k = (code % 10) if code else 0
  if code is None:
    corr.append("accumulator layout differs from the model (no Coq evaluation possible)")
  if bad or k in PROPERTY_CODES:
    what = (bad[0].split(":")[1].strip().split(" ")[0] if bad else "")   # cover / accumulator.. / rank-1 / squared
    sig = ("prop", what or k)
    if sig not in reported:
      reported.add(sig)
      ctx.violation("impl-violates", dict(
          input=case, expected="cover / monotone / rank-1 = AdaGrad / step <= AdaGrad (C12)",
          actual=dict(oracle=bad[:3], coq_code=code, coq_meaning=CODES.get(k)),
          theorem_or_check="c12_sm3_cover / c12_sm3_monotone / c12_sm3_rank1_is_adagrad / "
                           "c12_sm3_step_le_adagrad evaluated on the implementation "
                           "(harness/c12.py oracle + C12.Check.chk_history)",
          impl_output=res))
    return True
  if corr or k in (1, 4, 6):
    sig = ("corr", k if k else corr[0].split(":")[-1].strip().split("[")[0][:10])
    if sig not in reported:
      reported.add(sig)
      ctx.violation("correspondence-broken", dict(
          input=case, expected="model C12.Model.step == implementation (accumulators, update)",
          actual=dict(coq_code=code, coq_meaning=CODES.get(k), oracle_side=corr[:3]),
          theorem_or_check="correspondence C12.Check.chk_history",
          note="the property oracle found nothing wrong on this input; the model no longer "
               "describes sm3.py, so the theorems no longer speak about it",
          impl_output=res), no_input=True)
    return True
  return False


def load_corpus():
  d = os.path.join(common.VERIF, "corpus", "C12")
  out = []
  if os.path.isdir(d):
    for f in sorted(os.listdir(d)):
      if f.endswith(".json"):
        rec = json.load(open(os.path.join(d, f)))
        c = rec.get("input", rec)
        if isinstance(c, dict) and "shape" in c:
          out.append(c)
  return out


def long_history_probe(ctx):
  """Long histories (hundreds of steps) on small tensors, float32 and bfloat16 parameters: the covering
  accumulator must stay above the exact discounted sum of squares (up to the rounding of a float32
  accumulation).  Implementation-side only: the Coq model is exact arithmetic and the short histories
  already tie it to the code; what this adds is the regime where an accumulator kept in a short
  mantissa stalls (added after a seeded change that allocated the accumulators in the parameter dtype
  was missed)."""
  quick = ctx.tier == "quick"
  cases = []
  for i, (shape, dtype, beta2, hist) in enumerate([
      ([5], "bfloat16", 1.0, "const"), ([3, 4], "bfloat16", 1.0, "const"), ([5], "bfloat16", 0.999, "normal"),
      ([5], "float32", 1.0, "const"), ([2, 3, 2], "bfloat16", 1.0, "normal"), ([4], "float32", 0.999, "normal")]):
    cases.append(dict(id=i, shape=shape, dtype=dtype, beta2=beta2, hist=hist, T=400 if quick else 1500,
                      every=50, seed=ctx.rng.next()))
  res = common.run_worker("harness.impl.c12_long_worker", dict(cases=cases), timeout=1800)["results"]
  for c, r in zip(cases, res):
    ctx.count("long-history probes")
    if "exc" in r:
      ctx.violation("impl-violates", dict(input=c, expected="sm3 runs", actual=r["exc"],
                                          theorem_or_check="long-history probe (c12_long_worker)"))
      continue
    # float32 accumulation of T terms: relative error <= T * 2^-24; bfloat16 gradients are squared in
    # bfloat16 by the implementation (2^-9 relative per term, both signs): allow 2^-7
    tol = 2.0 ** -7 if c["dtype"] == "bfloat16" else c["T"] * 2.0 ** -23
    if r["worst"] and r["worst"]["rel"] > tol:
      ctx.violation("impl-violates", dict(
          input=c, expected="covering accumulator >= exact discounted sum of squares (relative slack %.3g)" % tol,
          actual=r["worst"], accumulator_dtype=r.get("acc_dtype"),
          theorem_or_check="long-history probe (c12_long_worker); c12 cover theorems"))


def translator_obligations(ctx):
  """Regenerate the translation of sm3._moving_averages / _moving_averages_momentum from /repo and re-prove
  it equal to C12.Ref (linked to the model by c12_source_moving_averages_is_model)."""
  from tools import targets
  text, errors = targets.generate_c12(common.REPO)
  ctx.cov["obligations"] += 3
  if errors:
    ctx.proof_failure("translate sm3._moving_averages / _moving_averages_momentum", json.dumps(errors))
    return
  ok, out = ctx.gen_obligation("Gen", text)
  if not ok:
    ctx.proof_failure("compile gen/C12/Gen.v (translation of SM3's moving averages)", out[-2000:])
    return
  ctx.cov["discharged"] += 1
  for fn in (targets.SM3_MA, targets.SM3_MOM):
    ob = ("From Precond Require Import Base.PyLib Base.QMat Base.PyFloat.\nFrom Precond Require C12.Ref.\n"
          "From PrecondGen Require C12.Gen.\n"
          "Lemma gen_eq_%s : C12.Gen.%s = C12.Ref.%s.\nProof. reflexivity. Qed.\n"
          % (fn.name, fn.name, fn.name))
    ok, out = ctx.gen_obligation("GenEq_" + fn.name, ob)
    if ok:
      ctx.cov["discharged"] += 1
    else:
      ctx.proof_failure("GenEq_%s (Gen = Ref)" % fn.name, out[-2000:])


def run(ctx):
  ctx.cov["rule"] = (
      "shapes: all of rank 1..2 over dims 1..4, PRNG samples of rank 3..4 (dims 1..4, unit dims "
      "included) plus a few larger; per shape a random configuration (beta2 in {1,1/2} with 4-bit "
      "integer gradients -> exact comparison; beta2 in {1,.5,.999,.9,.25} with float32 normal/"
      "sparse/hyper-plane gradients at scales 1e-3..1e3 -> tau_f32), beta1 in {0,.9}, weight decay, "
      "normalize_grads, 1..6(8) steps, eager and jit.  A case is distinct by its full input and "
      "non-trivial when rank = 1 or some entry is strictly over-covered (the sketch lost information)")
  ctx.assumptions += [
      "Coq 8.16.1 kernel + vm_compute",
      "float32 arithmetic of XLA is not modelled: exact comparison only where float arithmetic is "
      "exact (integer gradients, dyadic beta2); otherwise tau_f32 = 2^-17 relative per transition "
      "(<= 5 roundings of 2^-24 per step, histories <= 8 steps)",
      "momentum int8 quantisation is observed (de-quantised previous momentum), not modelled",
      "normalize_grads: the normalised gradient is recomputed with the same jnp expression and "
      "cross-checked against float64"]
  ctx.cov["tolerances"] = dict(tau_f32=float(TAU), tau_update_squared=float(TAU_U2))
  ctx.proofs(PROPS, extra_targets=EXTRA)
  translator_obligations(ctx)
  long_history_probe(ctx)
  known = common.load_known_findings("C12")
  corpus = load_corpus()
  cases = gen_cases(ctx)
  for k, c in enumerate(corpus):
    c = dict(c)
    c["id"] = 10 ** 6 + k
    cases.insert(k, c)
  ctx.log("%d cases (%d from corpus)" % (len(cases), len(corpus)))
  results = run_cases(ctx, cases)
  reported = set()
  for c, r in zip(cases, results):
    n = 1
    for d in c["shape"]:
      n *= d
    ctx.count("rank=%d" % len(c["shape"]))
    ctx.count("size<=%d" % (1 if n <= 1 else 4 if n <= 4 else 16 if n <= 16 else 64 if n <= 64 else 256))
    ctx.count("beta2=%g" % c["beta2"])
    ctx.count("beta1=%g" % c["beta1"])
    ctx.count("exact" if c["exact"] else "tolerance")
    ctx.count("steps", len(c["grads"]))
    if c["normalize"]:
      ctx.count("normalize_grads")
    if c["wd"]:
      ctx.count("weight_decay")
    if c.get("jit"):
      ctx.count("jit")
    if any(d == 1 for d in c["shape"]):
      ctx.count("has_unit_dim")
    _, _, info = oracle(c, r) if "exc" not in r else ([], [], dict(strict_cover=0))
    nontrivial = len(c["shape"]) == 1 or info["strict_cover"] > 0
    key = json.dumps({k: v for k, v in c.items() if k != "id"}, sort_keys=True)
    sample = None
    if ctx.cov["evaluations"] % 97 == 0 and "exc" not in r:
      sample = dict(shape=c["shape"], beta2=c["beta2"], kind=c.get("kind"), steps=len(c["grads"]),
                    first_grad=c["grads"][0][:6], final_accumulators=[a[:4] for a in r["steps"][-1]["acc"]],
                    coq_code=r.get("coq_code"))
    ctx.case(key, nontrivial, sample=sample)
    judge(ctx, c, r, reported, known)
  ctx.flush_proof_failures()


def replay(ctx, rec):
  c = rec.get("input")
  if not isinstance(c, dict) or "shape" not in c:
    print("replay: nothing executable in this record (%s)" % rec.get("theorem_or_check"))
    return 1
  ctx.proofs(PROPS, extra_targets=EXTRA)
  c = dict(c)
  c.setdefault("id", 0)
  r = run_cases(ctx, [c], tag="replay")[0]
  if "exc" in r:
    print("implementation raised:", r["exc"])
    print("REPLAY reproduces")
    return 1
  bad, corr, info = oracle(c, r)
  code = r.get("coq_code")
  print(json.dumps(dict(coq_code=code, coq_meaning=CODES.get((code or 0) % 10), oracle=bad,
                        correspondence=corr, final_accumulators=r["steps"][-1]["acc"]), indent=1))
  failed = bool(bad or corr or code)
  print("REPLAY %s" % ("reproduces" if failed else "does not reproduce"))
  return 1 if failed else 0
