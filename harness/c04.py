"""C04 — statistics / preconditioner refresh cadence and warm-up follow the configured schedule.

Deciding method
  * Coq theorems (coq/theories/Properties/C04.v) about the automaton C04.Model.sched_step, for ALL
    statistics intervals, all (possibly step-dependent) preconditioner intervals, all start steps and
    all horizons: count + 1 per update; statistics change exactly on multiples of s; preconditioners
    and diagnostics are written exactly on multiples of the interval in force and are computed from
    the statistics written in the same step; scheduled interval >= 1; warm-up boundary; sharded
    one-step lag.
  * Tie: the public API (opt.init / opt.update) of Distributed Shampoo (replicated, and sharded
    under a device mesh), Tearfree Shampoo and Tearfree Sketchy is run for T = 12 steps on generic
    random gradients for a grid of (s, p, start); every state leaf is classified changed / unchanged
    BITWISE between successive steps, every step is re-run from the same state with another gradient
    (dependence on the current gradient = ordering of the two conditionals) and with perturbed stored
    preconditioners (which preconditioners the update uses); Coq's automaton must predict every bit.
    The scheduled interval (jnp float arithmetic) is compared value by value with the model's
    integer formula.  Updates before the start step must equal, bitwise, those of the same optimizer
    that never starts preconditioning, which in turn must agree with an independent numpy float32
    implementation of the grafting optimizer with momentum to 1e-6 relative (not bitwise: XLA may
    contract a*b+c into an FMA; float32 eps is 6e-8 and the update is ~8 operations deep).
"""
import fractions
import json
import os

from harness import common
from harness.common import zlit, zlist, blit

HEADER = "From Precond Require Import Base.PyLib C04.Model.\nOpen Scope Z_scope.\n"
WORKER = "harness.impl.c04_worker"
INF = 10 ** 6
GRAFT_TOL = 1e-6
FAIL_THRESHOLD = 0.1      # distributed_shampoo's default inverse_failure_threshold


# ------------------------------------------------------------------------------------------------
def gen_groups(ctx):
  quick = ctx.tier == "quick"
  rng = ctx.rng
  groups = []
  all_pairs = [(s, p) for s in range(1, 5) for p in range(1, 6)]
  all_starts = list(range(0, 7))
  shapes = [[3, 4], [4]]

  def pick_starts(k):
    return sorted(rng.shuffle(all_starts)[:k])

  # Distributed Shampoo, replicated
  if quick:
    base = [(3, 2), (2, 3), (1, 1), (1, 2), (2, 1), (4, 5), (3, 5), (4, 3)]
    rest = [x for x in rng.shuffle(all_pairs) if x not in base][:4]
    ds_pairs = [(sp, pick_starts(3)) for sp in base + rest]
  else:
    # full grid, three passes with different graft types / momentum variants / gradient histories
    ds_pairs = [(sp, all_starts) for sp in all_pairs] * 3
  for (s, p), starts in ds_pairs:
    kw = dict(graft_type=rng.choice(["SGD", "RMSPROP", "ADAGRAD"]), nesterov=bool(rng.below(2)))
    groups.append(dict(opt="ds", s=s, p=p, starts=starts, shapes=shapes, kw=kw,
                       seed=rng.next() % (1 << 31)))
  # scheduled preconditioner interval (learning-rate schedule)
  sched = [
      dict(p=1, end=20, lr=dict(kind="stair", lr0=0.25, bounds=[5, 9])),     # 1 x5, then 10
      dict(p=1, end=40, lr=dict(kind="linear", lr0=0.25, K=16)),             # 1, 10, 20, ...
      dict(p=10, end=8, lr=dict(kind="linear", lr0=0.25, K=16)),             # 10 throughout
      dict(p=2, end=16, lr=dict(kind="stair", lr0=0.125, bounds=[3])),       # floor(2/10)=0 -> 1, then 10
      dict(p=1, end=6, lr=dict(kind="linear", lr0=0.5, K=32)),               # stays 1
      dict(p=5, end=10, lr=dict(kind="stair", lr0=0.25, bounds=[2, 6])),     # 1 (floor 5), 10, 10
  ]
  # warm-up: the learning rate rises above lr(0), the scheduled expression goes negative and must be
  # clamped to 1 (added after a seeded change that only guarded the zero interval was missed; the
  # increments are exponent steps: x2 at step 2, back at 5, halved at 8)
  sched.insert(1, dict(p=20, end=40, lr=dict(kind="levels", lr0=0.125,
                                             levels=[[2, 1], [5, -1], [8, -1]])))
  for i, sc in enumerate(sched if not quick else sched[:4]):
    for s in ([1, 2] if not quick else [1 + i % 2]):
      kw = dict(graft_type=rng.choice(["SGD", "RMSPROP"]), nesterov=bool(rng.below(2)))
      groups.append(dict(opt="ds", s=s, p=sc["p"], sched=dict(end=sc["end"]), lr=sc["lr"],
                         starts=pick_starts(2) if quick else [0, 1, 3, 6], shapes=shapes, kw=kw,
                         seed=rng.next() % (1 << 31)))
  # Tearfree Shampoo (two frequencies)
  if quick:
    tf_pairs = [((3, 2), pick_starts(2)), ((2, 3), pick_starts(2)), ((1, 1), pick_starts(2)),
                ((4, 5), pick_starts(2))] + [(sp, pick_starts(2)) for sp in rng.shuffle(all_pairs)[:4]]
  else:
    tf_pairs = [(sp, all_starts) for sp in all_pairs] * 2
  for (s, p), starts in tf_pairs:
    kw = dict(graft_type=rng.choice(["SGD", "RMSPROP"]), momentum=rng.choice([0.0, 0.9]),
              nesterov=bool(rng.below(2)))
    groups.append(dict(opt="tf_shampoo", s=s, p=p, starts=starts, shapes=shapes, kw=kw,
                       seed=rng.next() % (1 << 31)))
  # a huge finite gradient (square overflows float32) on a step that is neither a statistics nor a
  # preconditioner step: the stored statistics / preconditioners must not move (added after a seeded
  # change that replaced the select by arithmetic masking was missed)
  for opt, s, p, t_sp in (("tf_shampoo", 2, 3, 1), ("tf_shampoo", 3, 2, 5), ("ds", 2, 2, 3)):
    kw = dict(graft_type="SGD", nesterov=False)
    if opt == "tf_shampoo":
      kw["momentum"] = 0.0
    groups.append(dict(opt=opt, s=s, p=p, starts=[0], shapes=shapes, kw=kw, seed=rng.next() % (1 << 31),
                       spike=dict(t=t_sp, scale=3e19), graft_reference=False))
  # Tearfree Sketchy (one frequency)
  for f in (rng.shuffle([1, 2, 3, 4, 5])[:4] if quick else [1, 2, 3, 4, 5] * 3):
    kw = dict(graft_type=rng.choice(["SGD", "RMSPROP"]), momentum=rng.choice([0.0, 0.9]),
              nesterov=bool(rng.below(2)), rank=2)
    groups.append(dict(opt="tf_sketchy", s=f, p=f, starts=pick_starts(2) if quick else all_starts,
                       shapes=shapes, kw=kw, seed=rng.next() % (1 << 31)))
  # Distributed Shampoo, sharded (eager under a mesh: slow -> few schedules, tiny tree)
  sh = [(2, 3, 2, 2), (1, 2, 1, 1)] if quick else [(2, 3, 2, 2), (1, 2, 1, 1), (3, 2, 4, 3), (1, 1, 0, 1),
                                                     (4, 5, 6, 2), (2, 1, 3, 1)]
  for s, p, start, D in sh:
    groups.append(dict(opt="ds_sharded", s=s, p=p, starts=[start], refs=[], shapes=[[2, 3]],
                       kw=dict(graft_type="SGD"), D=D, graft_reference=False,
                       seed=rng.next() % (1 << 31)))
  return groups


# ------------------------------------------------------------------------------------------------
def ratios_of(res):
  fr = [fractions.Fraction(int(n), int(d)) for n, d in res["lrs"]]
  return [(f / fr[0]) for f in fr]


def table_term(g, res):
  T = res["T"]
  if g.get("sched"):
    rs = ratios_of(res)
    return "(sched_table %s %s [%s])" % (
        zlit(g["p"]), zlit(g["sched"]["end"]),
        "; ".join("(%s, %s)" % (zlit(r.numerator), zlit(r.denominator)) for r in rs))
  return zlist([g["p"]] * T)


def bits_lit(bits):
  return "[" + "; ".join("[" + "; ".join(blit(b) for b in row) + "]" for row in bits) + "]"


def blist(bs):
  return "[" + "; ".join(blit(b) for b in bs) + "]"


def run_groups(ctx, groups, tag="c04"):
  order = sorted(range(len(groups)), key=lambda i: -(
      (30 if groups[i]["opt"] == "ds_sharded" else 1) * (len(groups[i]["starts"]) + 2)))
  nw = min(len(groups), common.NPROC)
  # round-robin of the cost-sorted groups over the workers
  buckets = [[] for _ in range(nw)]
  for j, i in enumerate(order):
    buckets[j % nw].append(i)
  outs = common.run_workers_parallel(WORKER, [dict(groups=[groups[i] for i in b]) for b in buckets],
                                     devices=8, timeout=3400)
  results = [None] * len(groups)
  for b, o in zip(buckets, outs):
    for i, r in zip(b, o["results"]):
      results[i] = r
  terms, idx = [], []
  for i, r in enumerate(results):
    g = r["group"]
    if not r.get("runs"):
      continue
    tbl = table_term(g, r)
    if g.get("sched"):
      terms.append(tbl)
      idx.append((i, None, "table"))
    sharded = g["opt"] == "ds_sharded"
    for k in g["starts"]:
      run = r["runs"].get(str(k), {})
      if not run.get("bits"):
        continue
      obs = [list(row) for row in run["bits"]]
      terms.append("chk_trace %s %s %s" % (zlit(g["s"]), tbl, bits_lit(obs)))
      idx.append((i, k, "trace"))
      terms.append("chk_dep %s %s %s %s %s" % (blit(sharded), zlit(k), zlit(g["s"]), tbl,
                                              blist(run["dep_stored"])))
      idx.append((i, k, "dep"))
      if str(INF) in r["runs"] and "upd" in r["runs"][str(INF)]:
        sel = [a != b for a, b in zip(run["upd"], r["runs"][str(INF)]["upd"])]
        terms.append("chk_select %s %s" % (zlit(k), blist(sel)))
        idx.append((i, k, "select"))
  vals = ctx.coq_eval(tag, HEADER, terms, per_shard=60)
  for (i, k, what), v in zip(idx, vals):
    if k is None:
      results[i].setdefault("model", {})[what] = v
    else:
      results[i]["runs"][str(k)].setdefault("model", {})[what] = v
  return results


def intervals_python(g, res):
  """Interval per step as the implementation reports it (scheduled) or as configured."""
  if g.get("sched"):
    return [int(round(v)) for v in res["sched_vals"]]
  return [g["p"]] * res["T"]


def judge_group(ctx, r, stats):
  """-> list of (kind, record)."""
  out = []
  g = r["group"]
  T = r.get("T", g.get("T", 12))
  if r.get("exc") or not r.get("runs"):
    out.append(("impl-violates", dict(input=g, expected="the configuration runs",
                                      actual=dict(exc=r.get("exc"), trace=r.get("trace", "")[-800:]),
                                      theorem_or_check="public API run")))
    return out

  def one(start):
    return dict({k: v for k, v in g.items() if k != "starts"}, starts=[start])

  # scheduled interval: value by value against the model's integer formula
  if g.get("sched"):
    import re
    model_tbl = [int(x) for x in re.findall(r"-?\d+", r.get("model", {}).get("table", ""))]
    impl_tbl = r["sched_vals"]
    stats["sched_values"] += len(impl_tbl)
    if r["sched_vals"] != r["sched_vals_traced"]:
      out.append(("impl-violates", dict(input=g, expected="schedule value independent of tracing",
                                        actual=dict(eager=r["sched_vals"], traced=r["sched_vals_traced"]),
                                        theorem_or_check="preconditioning_compute_steps_schedule")))
    if any(v < 1 for v in impl_tbl):
      out.append(("impl-violates", dict(input=g, expected="scheduled interval >= 1 at every step",
                                        actual=impl_tbl, theorem_or_check="c04_interval_ge_1")))
    elif [float(v) for v in model_tbl] != [float(v) for v in impl_tbl]:
      out.append(("correspondence-broken", dict(
          input=g, expected=dict(model_sched_interval=model_tbl), actual=dict(impl=impl_tbl, lrs=r["lrs"]),
          theorem_or_check="correspondence sched_interval vs preconditioning_compute_steps_schedule")))
      return out
  iv = intervals_python(g, r)
  s = g["s"]
  sharded = g["opt"] == "ds_sharded"
  refI = r["runs"].get(str(INF))
  ref0 = r["runs"].get("0")
  for k in g["starts"]:
    run = r["runs"].get(str(k), {})
    if run.get("exc"):
      out.append(("impl-violates", dict(input=one(k), expected="the configuration runs",
                                        actual=dict(exc=run["exc"], trace=run.get("trace", "")[-800:]),
                                        theorem_or_check="public API run")))
      continue
    if not run.get("finite", True):
      stats["nonfinite"] += 1
    errs = run.get("max_root_error") or []
    # a root was rejected (reported error NaN or >= threshold): the old value is legitimately kept and
    # the schedule is skipped.  Only refresh steps count: on every other step the diagnostics must be
    # bit-identical to the previous step's (part of the property), so a sentinel written there is not
    # evidence of a rejection (a seeded change hid behind this skip before)
    refresh_errs = [e for t, e in enumerate(errs) if t >= len(iv) or t % iv[t] == 0] \
        if len(errs) == len(run.get("bits") or []) else errs
    if any((e != e) or e >= FAIL_THRESHOLD for e in refresh_errs):
      stats["ambiguous_skipped"] += 1
      continue
    m = run.get("model", {})
    bad = []
    dirty = True     # the initial preconditioners are not the root of the initial statistics
    for t, b in enumerate(run["bits"]):
      cnt, sch, pch, mch, sdep, pdep = b
      is_s = (t % s == 0)
      is_p = (t % iv[t] == 0)
      if not cnt:
        bad.append((t, "step counter did not advance by exactly one"))
      if sch != is_s:
        bad.append((t, "statistics %s at step %d (t mod %d = %d)" % (
            "changed" if sch else "did not change", t, s, t % s)))
      if sdep != is_s:
        bad.append((t, "statistics %s on the gradient of step %d (t mod %d = %d)" % (
            "depend" if sdep else "do not depend", t, s, t % s)))
      dirty = dirty or sch
      exp_p = is_p and dirty
      if is_p:
        dirty = False
      if pch != exp_p:
        bad.append((t, "preconditioners %s at step %d (interval %d, statistics %s since the last refresh)" % (
            "changed" if pch else "did not change", t, iv[t], "new" if exp_p or (is_p and pch) else "unchanged")))
      if mch != exp_p and g["opt"] in ("ds", "ds_sharded"):
        bad.append((t, "diagnostics %s at step %d" % ("changed" if mch else "did not change", t)))
      if pdep != (is_p and is_s):
        bad.append((t, "preconditioners %s on the gradient of step %d (refresh %s, statistics step %s): "
                    "refresh must read the statistics written in the same step" % (
                        "depend" if pdep else "do not depend", t, is_p, is_s)))
      if g["opt"] != "tf_sketchy" and not all(run["all_or_none"][t]):
        bad.append((t, "partial refresh: changed/total leaves (statistics, preconditioners) = %s" % (
            run["partial"][t],)))
    # which preconditioners does the update use
    lag_bad = []
    # spike groups: the update itself overflows from the spike on, so only the state-leaf contract
    # (which leaves change, and on which gradient they depend) is decided there
    state_only = bool(g.get("spike"))
    for t, d in enumerate([] if state_only else run["dep_stored"]):
      is_p = (t % iv[t] == 0)
      if t < k and d:
        bad.append((t, "update before the start step %d depends on the preconditioners" % k))
      elif t >= k and not is_p and not d:
        bad.append((t, "update at step %d >= start %d does not use the stored preconditioners" % (t, k)))
      elif t >= k and is_p and d != sharded:
        lag_bad.append((t, "refresh step: update %s the stored preconditioners (mode %s)" % (
            "uses" if d else "ignores", "sharded" if sharded else "replicated")))
    # warm-up: decomposition against the never-starting and always-preconditioning runs
    if not state_only and refI is not None and "upd" in refI and ref0 is not None and "upd" in ref0:
      decomposable = g["opt"] == "ds" or g.get("kw", {}).get("momentum", 0.9) == 0.0
      for t in range(T):
        eqI = run["upd"][t] == refI["upd"][t]
        eq0 = run["upd"][t] == ref0["upd"][t]
        if t < k and not eqI:
          bad.append((t, "update at step %d < start %d differs (bitwise) from the grafting-only run" % (t, k)))
        if t >= k and eqI:
          bad.append((t, "update at step %d >= start %d is still the grafting-only update" % (t, k)))
        if t >= k and decomposable and not eq0:
          bad.append((t, "update at step %d >= start %d differs from the always-preconditioned run" % (t, k)))
    if bad:
      out.append(("impl-violates", dict(
          input=one(k), expected="cadence / warm-up contract of C04 at every step",
          actual=[dict(step=t, what=w) for t, w in bad[:10]],
          schedule=dict(s=s, intervals=iv, start=k),
          theorem_or_check="implementation-side oracle (bitwise leaf classification) / c04_* theorems",
          bits=run["bits"], dep_stored=run["dep_stored"])))
      continue
    mism = []
    if m.get("trace") != "-1":
      mism.append("chk_trace first differing step = %s" % m.get("trace"))
    if (m.get("dep") != "true" and not state_only) or lag_bad:
      mism.append("chk_dep = %s %s" % (m.get("dep"), lag_bad[:2]))
    if "select" in m and m["select"] != "true" and not state_only:
      mism.append("chk_select = %s" % m["select"])
    if mism:
      out.append(("correspondence-broken", dict(
          input=one(k), expected="C04.Model predicts every observed bit", actual=mism,
          schedule=dict(s=s, intervals=iv, start=k), bits=run["bits"], dep_stored=run["dep_stored"],
          theorem_or_check="correspondence chk_trace / chk_dep / chk_select",
          note="implementation-side property oracle found nothing wrong on this input")))
  # independent grafting optimizer
  if refI is not None and "graft_ref_maxrel" in refI:
    stats["graft_ref_max"] = max(stats["graft_ref_max"], refI["graft_ref_maxrel"])
    stats["graft_ref_bitwise"][0] += refI["graft_ref_bitwise"][0]
    stats["graft_ref_bitwise"][1] += refI["graft_ref_bitwise"][1]
    if not refI["graft_ref_maxrel"] <= GRAFT_TOL:
      out.append(("impl-violates", dict(
          input=one(INF), expected="never-preconditioning run == independent grafting optimizer with "
          "momentum (numpy float32) to %g relative" % GRAFT_TOL,
          actual=refI["graft_ref_maxrel"], theorem_or_check="c04_warmup_boundary / grafting reference")))
  return out


def new_stats():
  return dict(sched_values=0, nonfinite=0, ambiguous_skipped=0, graft_ref_max=0.0,
              graft_ref_bitwise=[0, 0])


def report(ctx, verdicts, reported):
  """One VIOLATION line per distinct (kind, optimizer, first complaint); at most 12 per run."""
  for kind, rec in verdicts:
    g = rec.get("input", {})
    act = rec.get("actual")
    first = act[0] if isinstance(act, list) and act else act
    desc = first.get("what", "") if isinstance(first, dict) else str(first)
    desc = "".join(ch for ch in desc if not ch.isdigit())[:40]
    sig = (kind, g.get("opt"), bool(g.get("sched")), desc)
    if sig in reported or len(reported) >= 12:
      continue
    reported.add(sig)
    ctx.violation(kind, rec, no_input=(kind == "correspondence-broken"))


def translator_obligations(ctx):
  """Regenerate the translation of preconditioning_compute_steps_schedule from /repo and re-prove it
  equal to C04.Ref (linked to sched_interval by c04_schedule_source_is_model)."""
  from tools import targets
  text, errors = targets.generate_c04(common.REPO)
  ctx.cov["obligations"] += 2
  if errors:
    ctx.proof_failure("translate distributed_shampoo.preconditioning_compute_steps_schedule",
                      json.dumps(errors))
    return
  ok, out = ctx.gen_obligation("Gen", text)
  if not ok:
    ctx.proof_failure("compile gen/C04/Gen.v (translation of the schedule function)", out[-2000:])
    return
  ctx.cov["discharged"] += 1
  fn = targets.SCHEDULE
  names = " ".join(n for n, _ in fn.params)
  ob = ("From Precond Require Import Base.PyLib Base.QMat Base.PyFloat.\nFrom Precond Require C04.Ref.\n"
        "From PrecondGen Require C04.Gen.\n"
        "Lemma gen_eq_%s : forall %s, C04.Gen.%s %s = C04.Ref.%s %s.\nProof. intros. reflexivity. Qed.\n"
        % (fn.name, names, fn.name, names, fn.name, names))
  ok, out = ctx.gen_obligation("GenEq_" + fn.name, ob)
  if ok:
    ctx.cov["discharged"] += 1
  else:
    ctx.proof_failure("GenEq_%s (Gen = Ref)" % fn.name, out[-2000:])


def run(ctx):
  ctx.cov["rule"] = (
      "schedules (s, p, start) from the grid [1..4]x[1..5]x[0..6] (quick: fixed core of coprime / "
      "equal / unit pairs + pairs and start steps drawn from the run's PRNG, ~60 schedules; thorough: "
      "the full grid) for Distributed Shampoo (replicated), Tearfree Shampoo, Tearfree Sketchy "
      "(one frequency), plus lr-scheduled intervals (exactly representable staircase / linear "
      "schedules) and sharded Distributed Shampoo; T = 12 steps; gradients i.i.d. normal from the "
      "run's PRNG on a (3,4) matrix and a (4,) vector, so every refresh changes every leaf.  A "
      "schedule is a distinct non-trivial case by (optimizer, s, p or schedule, start, graft type)")
  ctx.assumptions += [
      "Coq 8.16.1 kernel + vm_compute",
      "bitwise comparison of state leaves: a root recomputed from unchanged statistics is "
      "bit-identical (deterministic XLA program), a root recomputed from new generic statistics differs",
      "grafting-only reference: numpy float32 re-implementation (SGD / RMSProp / AdaGrad + "
      "heavy-ball or Nesterov momentum), tolerance 1e-6 relative to the leaf's max-abs",
      "learning-rate schedules are chosen exactly representable so that the float schedule "
      "expression is exact and equals the model's integer formula",
      "lax.cond / while_loop / jit are observed, not modelled"]
  ctx.proofs(["Properties/C04.v"])
  translator_obligations(ctx)
  stats = new_stats()
  reported = set()
  cdir = os.path.join(common.VERIF, "corpus", "C04")
  corpus = []
  for f in sorted(os.listdir(cdir)) if os.path.isdir(cdir) else []:
    if f.endswith(".json"):
      corpus.append(json.load(open(os.path.join(cdir, f))))
  groups = corpus + gen_groups(ctx)
  nsched = sum(len(g["starts"]) for g in groups)
  ctx.log("%d groups, %d schedules" % (len(groups), nsched))
  results = run_groups(ctx, groups)
  slow = sorted(((r.get("secs", 0), r["group"]["opt"]) for r in results), reverse=True)[:4]
  ctx.log("slowest groups:", slow)
  for r in results:
    g = r["group"]
    for k in g["starts"]:
      key = (g["opt"], g["s"], g["p"], json.dumps(g.get("sched")), json.dumps(g.get("lr")), k,
             g.get("kw", {}).get("graft_type"))
      run_ = r.get("runs", {}).get(str(k), {})
      ctx.case(key, nontrivial=True,
               sample=dict(opt=g["opt"], s=g["s"], p=g["p"], sched=g.get("sched"), start=k,
                           bits=["".join("1" if b else "0" for b in row) for row in run_.get("bits", [])],
                           dep_stored="".join("1" if b else "0" for b in run_.get("dep_stored", [])))
               if (len(ctx.cov["samples"]) < 6 and g["s"] != g["p"] and ctx.cov["evaluations"] % 7 == 0) else None)
      ctx.count("opt:" + g["opt"] + (":scheduled" if g.get("sched") else ""))
      ctx.count("s=%d" % g["s"])
      ctx.count("p=%d" % g["p"])
      ctx.count("start=%d" % k)
      ctx.count("graft:" + str(g.get("kw", {}).get("graft_type")))
    report(ctx, judge_group(ctx, r, stats), reported)
  ctx.cov["steps_classified"] = sum(len(run_.get("bits", [])) for r in results
                                    for run_ in r.get("runs", {}).values())
  ctx.cov["schedule_values_compared"] = stats["sched_values"]
  ctx.cov["ambiguous_skipped"] = stats["ambiguous_skipped"]
  ctx.cov["graft_reference_max_rel"] = stats["graft_ref_max"]
  ctx.cov["graft_reference_bitwise_equal_leaves"] = stats["graft_ref_bitwise"]
  if nsched and stats["ambiguous_skipped"] > 0.05 * nsched:
    ctx.violation("correspondence-broken", dict(
        theorem_or_check="generator degenerate: %d of %d schedules skipped (root rejected)" % (
            stats["ambiguous_skipped"], nsched)), no_input=True)
  ctx.flush_proof_failures()


def replay(ctx, rec):
  g = rec.get("input")
  if not isinstance(g, dict) or "opt" not in g:
    print("replay: nothing executable in this record (%s)" % rec.get("theorem_or_check"))
    return 1
  ctx.proofs(["Properties/C04.v"])
  res = run_groups(ctx, [g], tag="replay")
  stats = new_stats()
  verdicts = judge_group(ctx, res[0], stats)
  for k, run_ in res[0].get("runs", {}).items():
    print("start", k, "bits", ["".join("1" if b else "0" for b in row) for row in run_.get("bits", [])],
          "dep_stored", "".join("1" if b else "0" for b in run_.get("dep_stored", [])),
          "model", run_.get("model"), run_.get("exc", ""))
  for kind, v in verdicts:
    print("REPLAY verdict:", kind, json.dumps(v.get("actual"), default=str)[:1200])
  print("REPLAY %s" % ("reproduces" if verdicts else "does not reproduce"))
  return 1 if verdicts else 0
