"""C11 — quantized optimizer state round-trips within half a bucket and never wraps.

Deciding method
  * Coq theorems (Properties/C11.v): the real-number model over Q (complete) and the bit-exact
    binary32 model (Flocq BinarySingleNaN + DAZ/FTZ, C11/F32.v + C11/Model.v).
  * Tie: bit-exact correspondence.  The real QuantizedValue.from_float_value / to_float are run on
    float32 tensors of rank 1..3 (workers); stored integers, bucket bit patterns and de-quantized bit
    patterns must equal the binary32 model's, evaluated in Coq by vm_compute, column by column.
  * Property oracle evaluated directly on the implementation's raw outputs with exact fractions:
    no stored -N-1, half-bucket bound, zeros exact, diagonal exact, re-quantization fixed point.
"""
import fractions
import json
import os

from harness import common
from harness.common import zlist, zlit

F = fractions.Fraction
HEADER = ("From Coq Require Import ZArith List.\nImport ListNotations.\n"
          "From Precond Require Import C11.F32 C11.Model C11.Check.\nOpen Scope Z_scope.\n")
NB = {"int8": 127, "int16": 32767}
U = F(1, 1 << 24)                       # unit round-off of binary32
TWO = F(2)
MIN_NORMAL = TWO ** -126
OVF = TWO ** 128 - TWO ** 103           # round-to-nearest overflow threshold of binary32
PROOF_FILES = ["Properties/C11.v"]
EXTRA_TARGETS = ["theories/C11/Check.vo"]


# ----------------------------------------------------------------------------------------------
# exact view of bit patterns
# ----------------------------------------------------------------------------------------------
def bits2frac(b):
  """Exact value of a binary32 bit pattern; None for inf / nan."""
  b = int(b)
  s = -1 if b >> 31 else 1
  e = (b >> 23) & 0xFF
  m = b & 0x7FFFFF
  if e == 255:
    return None
  if e == 0:
    return s * F(m) * TWO ** -149
  return s * F(m + (1 << 23)) * TWO ** (e - 150)


def mk(sign, e, mant):
  """Bit pattern of sign * 1.mant * 2^e, e in -149..127 (subnormal when e < -126: the leading
  bit sits at position e + 149 and only the lower bits of mant are kept)."""
  sb = (1 << 31) if sign else 0
  if e >= -126:
    return sb | ((e + 127) << 23) | (mant & 0x7FFFFF)
  k = e + 149
  return sb | (1 << k) | (mant & ((1 << k) - 1))


def is_sub(b):
  return ((b >> 23) & 0xFF) == 0 and (b & 0x7FFFFF) != 0


def of_frac_exact(fr):
  """Bit pattern of an exactly representable fraction (asserted)."""
  import struct
  v = float(fr)
  b = struct.unpack("<I", struct.pack("<f", v))[0]
  assert bits2frac(b) == fr, fr
  return b


# ----------------------------------------------------------------------------------------------
# generator
# ----------------------------------------------------------------------------------------------
MANT_PATTERNS = ("zero", "one", "ones", "rand")


def mant_of(rng, pat):
  if pat == "zero":
    return 0
  if pat == "one":
    return 1
  if pat == "ones":
    return 0x7FFFFF
  return rng.below(1 << 23)


def rand_val(rng, emax_, emin_=-149):
  e = rng.rint(emin_, emax_)
  return mk(rng.below(2), e, rng.below(1 << 23))


def gen_columns(ctx):
  """Returns list of dict(kind, dtype, xs=[bits])."""
  rng = ctx.rng
  quick = ctx.tier == "quick"
  cols = []
  lens = [1, 2, 3, 4, 6]

  def add(kind, dtype, xs):
    cols.append(dict(kind=kind, dtype=dtype, xs=[int(x) for x in xs]))

  # (1) every exponent x mantissa pattern x sign; the focus value is the column max, an
  #     interior entry below a larger max, or a single-entry column.
  reps = 1 if quick else 6
  for rep in range(reps):
    for e in range(-149, 128):
      for pat in MANT_PATTERNS:
        for sign in (0, 1):
          dts = [("int8", "int16")[(e + sign + rep + MANT_PATTERNS.index(pat)) % 2]] if quick else ["int8", "int16"]
          for dt in dts:
            v = mk(sign, e, mant_of(rng, pat))
            n = rng.choice(lens)
            role = rng.below(4)
            if n == 1 or role == 0:
              xs = [v] + [rand_val(rng, e - 1 if e > -149 else -149, max(-149, e - 30)) if e > -149 else 0
                          for _ in range(n - 1)]
              # keep |others| <= |v| : exponent strictly below
              kind = "sweep_max"
            elif role == 1:
              big = mk(rng.below(2), min(127, e + rng.rint(0, 16)), rng.below(1 << 23))
              xs = [v, big] + [rand_val(rng, e, max(-149, e - 12)) for _ in range(n - 2)]
              kind = "sweep_entry"
            elif role == 2:
              xs = [v] * n
              kind = "sweep_const"
            else:
              xs = [v] + [rand_val(rng, min(127, e + 3), max(-149, e - 8)) for _ in range(n - 1)]
              kind = "sweep_mixed"
            add(kind, dt, rng.shuffle(xs))
  # (2) zero / signed-zero / constant columns
  for dt in NB:
    for n in lens:
      add("zeros", dt, [0] * n)
      add("zeros", dt, [(1 << 31) if i % 2 else 0 for i in range(n)])
      add("zero_and_one", dt, [0x3F800000] + [(1 << 31)] * (n - 1))
  # (3) exact ties at .5: max = N * 2^k so the bucket is exactly 2^k; entries (j + 1/2) * 2^k
  nties = 160 if quick else 1600
  for _ in range(nties):
    dt = rng.choice(list(NB))
    N = NB[dt]
    k = rng.rint(-120, 100)
    n = rng.choice([3, 4, 6])
    xs = [of_frac_exact(F(N) * TWO ** k * (-1 if rng.below(2) else 1))]
    while len(xs) < n:
      j = rng.rint(0, N - 1) if rng.below(4) else rng.rint(0, 3)
      xs.append(of_frac_exact((F(j) + F(1, 2)) * TWO ** k * (-1 if rng.below(2) else 1)))
    add("ties", dt, rng.shuffle(xs))
  # (4) near ties: entries one ulp off a tie, general buckets
  for _ in range(160 if quick else 1600):
    dt = rng.choice(list(NB))
    N = NB[dt]
    k = rng.rint(-100, 100)
    n = rng.choice([2, 3, 4])
    xs = [of_frac_exact(F(N) * TWO ** k)]
    while len(xs) < n:
      j = rng.rint(0, min(N - 1, 4000))
      b = of_frac_exact((F(j) + F(1, 2)) * TWO ** k)
      xs.append((b + rng.choice([-1, 1, 0, 2, -2])) | (rng.below(2) << 31))
    add("near_ties", dt, rng.shuffle(xs))
  # (5) near-overflow: max in the top binades
  for _ in range(120 if quick else 1200):
    dt = rng.choice(list(NB))
    n = rng.choice(lens)
    top = rng.choice([0x7F7FFFFF, 0x7F7FFFFE, 0x7F7FFFFD, 0x7F7FFF00 | rng.below(256),
                      mk(0, 127, rng.below(1 << 23)), mk(0, 126, rng.below(1 << 23)),
                      mk(0, 127, 0x7FFFFF - rng.below(64))])
    top |= rng.below(2) << 31
    xs = [top] + [rand_val(rng, 127, 100) for _ in range(n - 1)]
    # keep the designated top as max in half of the cases
    if rng.below(2):
      xs = [top] + [x if (x & 0x7FFFFFFF) <= (top & 0x7FFFFFFF) else (x & 0x80000000) | ((top & 0x7FFFFFFF) - rng.below(1000))
                    for x in xs[1:]]
    add("near_overflow", dt, rng.shuffle(xs))
  # (6) the flush boundary of the bucket: max = N * 2^-126 +- a few ulps, and 2N*2^-126 (bucket 2^-125)
  for dt, N in NB.items():
    for mult in (1, 2):
      base = of_frac_exact(F(N * mult) * MIN_NORMAL)
      for d in range(-6, 7):
        for n in (1, 3):
          xs = [base + d] + [rand_val(rng, -126, -149) for _ in range(n - 1)]
          add("flush_boundary", dt, xs)
          xs = [(base + d) | (1 << 31)] + [mk(rng.below(2), -127, rng.below(1 << 23)) for _ in range(n - 1)]
          add("flush_boundary", dt, xs)
  # (7) mixed magnitudes / fully random finite patterns
  for _ in range(500 if quick else 8000):
    dt = rng.choice(list(NB))
    n = rng.choice(lens)
    mode = rng.below(3)
    if mode == 0:
      xs = []
      while len(xs) < n:
        b = rng.below(1 << 32)
        if ((b >> 23) & 0xFF) != 255:
          xs.append(b)
      kind = "random_bits"
    elif mode == 1:
      e0 = rng.rint(-140, 120)
      xs = [rand_val(rng, min(127, e0 + 6), max(-149, e0 - 6)) for _ in range(n)]
      kind = "random_near"
    else:
      e0 = rng.rint(-100, 100)
      xs = [mk(rng.below(2), e0, 0)] + [of_frac_exact(F(rng.rint(-40, 40)) * TWO ** (e0 - 5)) for _ in range(n - 1)]
      kind = "small_ints"
    add(kind, dt, xs)
  return cols


LAYOUTS = [("r1", 1), ("r2", 3), ("r2", 8), ("r2", 17), ("r3", (2, 2)), ("r3", (3, 5)), ("r3", (4, 4))]


def pack(ctx, cols):
  """Pack columns (same dtype and length) into tensors of rank 1..3.  Each tensor records, per
  column, the index into `cols`."""
  rng = ctx.rng
  groups = {}
  for i, c in enumerate(cols):
    groups.setdefault((c["dtype"], len(c["xs"])), []).append(i)
  tensors = []
  for (dt, n), idxs in sorted(groups.items()):
    idxs = rng.shuffle(idxs)
    p = 0
    while p < len(idxs):
      kind, c = rng.choice(LAYOUTS)
      cnt = 1 if kind == "r1" else (c if kind == "r2" else c[0] * c[1])
      if p + cnt > len(idxs):
        kind, c, cnt = ("r1", 1, 1) if len(idxs) - p < 3 else ("r2", len(idxs) - p, len(idxs) - p)
        if kind == "r2" and cnt not in (3, 8, 17):
          kind, c, cnt = "r1", 1, 1
      take = idxs[p:p + cnt]
      p += cnt
      shape = [n] if kind == "r1" else ([n, c] if kind == "r2" else [n, c[0], c[1]])
      bits = []
      for i in range(n):
        for j in take:
          bits.append(cols[j]["xs"][i])
      tensors.append(dict(dtype=dt, diag=False, shape=shape, bits=bits, cols=take,
                          spelling=len(tensors) % 4))
  return tensors


def gen_diag_tensors(ctx):
  rng = ctx.rng
  quick = ctx.tier == "quick"
  out = []
  for _ in range(90 if quick else 1200):
    dt = rng.choice(list(NB))
    n = rng.choice([1, 2, 3, 4, 5])
    mode = rng.below(5)
    e0 = rng.rint(-135, 120)
    bits = []
    for i in range(n):
      for j in range(n):
        if mode == 0:      # PSD-like: large diagonal, small off-diagonal
          v = mk(0, min(127, e0 + 4), rng.below(1 << 23)) if i == j else rand_val(rng, e0, max(-149, e0 - 10))
        elif mode == 1:    # arbitrary
          v = rand_val(rng, min(127, e0 + 5), max(-149, e0 - 5))
        elif mode == 2:    # diagonal only
          v = rand_val(rng, e0, max(-149, e0 - 3)) if i == j else (rng.below(2) << 31)
        elif mode == 3:    # subnormal / tiny diagonal entries, normal off-diagonal
          v = rand_val(rng, -120, -149) if i == j else rand_val(rng, 10, -10)
        else:              # exact ties off the diagonal
          N = NB[dt]
          k = max(-100, min(90, e0))
          v = of_frac_exact(F(N) * TWO ** k) if (i + 1) % n == j else of_frac_exact(
              (F(rng.rint(0, 50)) + F(1, 2)) * TWO ** k * (-1 if rng.below(2) else 1))
        bits.append(v)
    out.append(dict(dtype=dt, diag=True, shape=[n, n], bits=bits, kind="diag_mode%d" % mode,
                    spelling=len(out) % 4))
  return out


def gen_cast_tensors(ctx):
  """bfloat16 / float32 'quantization' modes: plain casts."""
  rng = ctx.rng
  quick = ctx.tier == "quick"
  out = []
  vals = []
  for e in range(-149, 128):
    for pat in MANT_PATTERNS:
      vals.append(mk(rng.below(2), e, mant_of(rng, pat)))
    # ties of the bfloat16 rounding: low 16 bits = 0x8000, odd/even kept part
    vals.append(mk(0, e, (rng.below(128) << 16) | 0x8000))
    vals.append(mk(1, e, (rng.below(128) << 16) | 0x7FFF))
    vals.append(mk(1, e, (rng.below(128) << 16) | 0x8001))
  vals += [0, 1 << 31, 0x7F7FFFFF, 0xFF7FFFFF, 0x7F7F8000, 0x7F7F7FFF, 0x7F7F0000]
  vals += [rng.below(1 << 32) for _ in range(200 if quick else 4000)]
  vals = [v for v in vals if ((v >> 23) & 0xFF) != 255]
  vals = rng.shuffle(vals)
  shapes = [[16], [4, 4], [2, 2, 4]]
  p = 0
  k = 0
  while p < len(vals):
    sh = shapes[k % 3]
    chunk = vals[p:p + 16]
    if len(chunk) < 16:
      chunk = chunk + [0] * (16 - len(chunk))
    for dt in ("bfloat16", "float32") if k % 4 == 0 else ("bfloat16",):
      out.append(dict(dtype=dt, diag=False, shape=sh, bits=chunk, kind="cast"))
      if sh == [4, 4] and k % 2 == 0:
        # the cast modes with extract_diagonal=True: still plain casts, the diagonal must survive
        # (added after a seeded change that removed it before the pass-through was missed)
        out.append(dict(dtype=dt, diag=True, shape=sh, bits=chunk, kind="cast"))
    p += 16
    k += 1
  return out


# ----------------------------------------------------------------------------------------------
# running the implementation
# ----------------------------------------------------------------------------------------------
def run_impl(tensors):
  for i, t in enumerate(tensors):
    t["id"] = i
  order = sorted(range(len(tensors)), key=lambda i: (tensors[i]["dtype"], tensors[i]["diag"],
                                                     tensors[i]["shape"]))
  n = min(common.NPROC, max(1, len(tensors) // 8))
  size = -(-len(order) // n)
  chunks = [order[i:i + size] for i in range(0, len(order), size)]
  payloads = [dict(tensors=[dict(id=tensors[i]["id"], dtype=tensors[i]["dtype"],
                                 diag=tensors[i]["diag"], shape=tensors[i]["shape"],
                                 bits=tensors[i]["bits"], spelling=tensors[i].get("spelling", 0))
                            for i in ch]) for ch in chunks]
  outs = common.run_workers_parallel("harness.impl.c11_worker", payloads, x64=False, timeout=3000)
  res = {}
  for o in outs:
    for r in o["results"]:
      res[r["id"]] = r
  return [res[i] for i in range(len(tensors))]


def columns_of(t, r):
  """Split a tensor's inputs and outputs into columns (axis 0 reduced)."""
  n = t["shape"][0]
  c = 1
  for s in t["shape"][1:]:
    c *= s
  cols = []
  for j in range(c):
    sl = lambda a: [a[i * c + j] for i in range(n)]
    cols.append(dict(j=j, ncols=c, xs=sl(t["bits"]), q=sl(r["q"]), deq=sl(r["deq"]), bucket=r["bucket"][j],
                     q2=sl(r["q2"]), deq2=sl(r["deq2"]), bucket2=r["bucket2"][j],
                     diag=(r["diag"][j] if t["diag"] else None)))
  return cols


# ----------------------------------------------------------------------------------------------
# property oracle on the implementation's outputs (exact fractions)
# ----------------------------------------------------------------------------------------------
def slack(N):
  """|x - deq| <= bucket * (1/2 + (3N+2) * 2^-24): half a bucket plus the a-priori rounding of the
  float32 operations: x / bucket is computed as x * fl(1/bucket) (two roundings, |x/bucket| <=
  N/(1-u)^2) and q * bucket (one rounding, |q| <= N).  This is the constant of theorem
  half_bucket_f32; it is derived, not tuned."""
  return F(1, 2) + (3 * N + 2) * U


def oracle_column(N, col, diag):
  """Returns list of failure dicts (clause, ...) for one column."""
  fails = []
  X = [bits2frac(x) for x in col["xs"]]
  j = col["j"]
  Xeff = list(X)
  if diag:
    Xeff[j] = F(0)
  m = max(abs(v) for v in Xeff)
  B = bits2frac(col["bucket"])
  overflow = B is not None and N * B >= OVF

  def fail(clause, i=None, **kw):
    d = dict(clause=clause, N=N, m=m, B=B, i=i, overflow=overflow,
             x=(X[i] if i is not None else None),
             xsub=(i is not None and is_sub(col["xs"][i])),
             deq_finite=all(bits2frac(v) is not None for v in col["deq"]))
    d.update(kw)
    fails.append(d)

  # bucket = column max-abs / N (correctly rounded when in the normal range)
  if B is None or B < 0:
    fail("bucket")
  else:
    ex = m / N
    if ex >= MIN_NORMAL:
      if abs(B - ex) > 4 * U * ex:   # m * fl(1/N): two roundings (< 2.01 u); 4u is a sanity bound
        fail("bucket")
    elif not (B == 0 and m == 0):
      # max|col| / N below the normal range: exact reproduction would need B within half a
      # subnormal ulp; the implementation flushes to zero here (finding D12a)
      if abs(B - ex) > TWO ** -150:
        fail("bucket")
  if diag and col["diag"] != col["xs"][j]:
    fail("diag_stored", j)
  for i, q in enumerate(col["q"]):
    if q < -N or q > N:
      fail("wrap", i, q=q)
    D = bits2frac(col["deq"][i])
    if D is None:
      fail("nonfinite", i)
      continue
    if diag and i == j:
      if D != X[i]:
        fail("diag", i)
      continue
    if X[i] == 0 and D != 0:
      fail("zero", i)
    if B is not None and abs(X[i] - D) > B * slack(N):
      fail("half_bucket", i, err=abs(X[i] - D))
  if col["q2"] != col["q"]:
    fail("requant")
  return fails


def oracle_cast(t, r):
  fails = []
  for i, (x, q, d) in enumerate(zip(t["bits"], r["q"], r["deq"])):
    X = bits2frac(x)
    if t["dtype"] == "float32":
      if q != x or d != x:
        fails.append(dict(clause="float32_identity", i=i))
      continue
    if d != q:
      fails.append(dict(clause="bf16_upcast", i=i))
    if q & 0xFFFF:
      fails.append(dict(clause="bf16_not_bf16", i=i))
    V = bits2frac(q)
    if V is None:
      if abs(X) < (TWO - TWO ** -8) * TWO ** 127:
        fails.append(dict(clause="bf16_overflow", i=i))
      continue
    tol = TWO ** -8 * abs(X) if abs(X) >= MIN_NORMAL else TWO ** -134  # half an ulp of an 8-bit significand
    if abs(X - V) > tol:
      fails.append(dict(clause="bf16_error", i=i))
    if X == 0 and q != x:
      fails.append(dict(clause="bf16_zero", i=i))
    if r["q2"][i] != q:
      fails.append(dict(clause="bf16_idempotent", i=i))
  if not r.get("extra_empty"):
    fails.append(dict(clause="cast_extra_fields", i=None))
  return fails


def structure_fails(t, r):
  out = []
  if r.get("shape_field") != t["shape"] or r.get("deq_shape") != t["shape"]:
    out.append("shape")
  if r.get("deq_dtype") != "float32":
    out.append("deq_dtype")
  if t["dtype"] in NB:
    if r.get("q_dtype") != t["dtype"]:
      out.append("q_dtype")
    if r.get("bucket_shape") != t["shape"][1:]:
      out.append("bucket_shape")
  return out


def finding_for(f, known):
  env = dict(f)
  env["F"] = F
  for k in known:
    pred = k.get("match", {}).get("pred")
    if not pred:
      continue
    try:
      if eval(pred, {"__builtins__": {}}, env):  # pylint: disable=eval-used
        return k
    except Exception:  # pylint: disable=broad-except
      continue
  return None


# ----------------------------------------------------------------------------------------------
# model side
# ----------------------------------------------------------------------------------------------
def flags(col):
  """XLA:CPU turns a / broadcast(b) into a * (1 / b): the bucket is computed that way iff the
  tensor has more than one column (rb), the ratio iff the column has more than one row (rr)."""
  return "%s %s" % (common.blit(col["ncols"] > 1), common.blit(len(col["xs"]) > 1))


def col_term(N, col, diag):
  if diag:
    return "chk_diagcol %s %d %d %s %s %s %s" % (flags(col), N, col["j"], zlist(col["xs"]),
                                                  zlist(col["q"]), zlit(col["bucket"]),
                                                  zlist(col["deq"]))
  return "chk_col %s %d %s %s %s %s" % (flags(col), N, zlist(col["xs"]), zlist(col["q"]),
                                         zlit(col["bucket"]), zlist(col["deq"]))


def requant_term(N, col, diag):
  """The model applied to the implementation's de-quantized output must give the observed second
  quantization (ties the re-quantization clause to the model as well)."""
  c2 = dict(j=col["j"], ncols=col["ncols"], xs=col["deq"], q=col["q2"], bucket=col["bucket2"],
            deq=col["deq2"])
  return col_term(N, c2, diag)


def run_term(N, col, diag):
  if diag:
    return "run_diagcol %s %d %d %s" % (flags(col), N, col["j"], zlist(col["xs"]))
  return "run_col %s %d %s" % (flags(col), N, zlist(col["xs"]))


def exp_bucket(m):
  if m == 0:
    return "max=0"
  import math
  e = math.floor(math.log2(float(m))) if m >= TWO ** -1000 else -149
  lo = (e // 16) * 16
  return "max in 2^[%d,%d)" % (lo, lo + 16)


# ----------------------------------------------------------------------------------------------
def evaluate(ctx, tensors, known, tag, report=True):
  """Run implementation + oracle + model on tensors.  Returns list of problem records."""
  results = run_impl(tensors)
  problems = []
  terms, owners = [], []
  for t, r in zip(tensors, results):
    t["res"] = r
    if "exc" in r:
      problems.append(dict(kind="impl-violates", clause="exception", tensor=t, detail=r["exc"]))
      continue
    sf = structure_fails(t, r)
    if sf:
      problems.append(dict(kind="impl-violates", clause="structure:" + ",".join(sf), tensor=t))
      continue
    ctx.count("dtype=" + t["dtype"] + (",diag" if t["diag"] else ""))
    ctx.count("rank=%d" % len(t["shape"]))
    if t["dtype"] in NB:
      N = NB[t["dtype"]]
      for col in columns_of(t, r):
        fails = oracle_column(N, col, t["diag"])
        X = [bits2frac(x) for x in col["xs"]]
        m = max(abs(v) for v in X)
        ctx.count(exp_bucket(m))
        ctx.count("n=%d" % len(col["xs"]))
        nontrivial = bits2frac(col["bucket"]) not in (None, 0) and any(
            q not in (0, N, -N) for q in col["q"])
        ctx.case((t["dtype"], t["diag"], col["j"] if t["diag"] else 0, tuple(col["xs"])), nontrivial,
                 sample=(dict(dtype=t["dtype"], diag=t["diag"], xs=col["xs"], q=col["q"],
                              bucket=col["bucket"], deq=col["deq"])
                         if ctx.cov["evaluations"] % 701 == 0 else None))
        col["fails"] = fails
        col["tensor"] = t
        terms.append(col_term(N, col, t["diag"]))
        owners.append((t, col, "quantize"))
        if all(bits2frac(v) is not None for v in col["deq"]):
          terms.append(requant_term(N, col, t["diag"]))
          owners.append((t, col, "requantize"))
        for f in fails:
          k = finding_for(f, known)
          ctx.count("oracle_fail:" + f["clause"] + (":" + k["id"] if k else ""))
          problems.append(dict(kind="impl-violates", clause=f["clause"], tensor=t, col=col, fail=f,
                               finding=k))
    else:
      fails = oracle_cast(t, r)
      for i in range(len(t["bits"])):
        ctx.case((t["dtype"], t["bits"][i]), True)
      for f in fails:
        problems.append(dict(kind="impl-violates", clause=f["clause"], tensor=t, fail=f, finding=None))
      if t["dtype"] == "bfloat16":
        terms.append("chk_bf16 %s %s" % (zlist(t["bits"]), zlist(r["q"])))
        owners.append((t, None, "bf16"))
  vals = ctx.coq_eval(tag, HEADER, terms, per_shard=300)
  for v, (t, col, what) in zip(vals, owners):
    if v not in ("true", "false"):
      raise common.CoqError("unexpected verdict %r" % v)
    ctx.count("model_cmp:" + what)
    if v == "false":
      problems.append(dict(kind="correspondence-broken", clause="model!=impl:" + what, tensor=t, col=col))
  return problems


def tensor_input(t, col=None):
  d = dict(dtype=t["dtype"], diag=t["diag"], shape=t["shape"], bits=t["bits"], spelling=t.get("spelling", 0))
  if col is not None:
    d["column"] = col["j"]
  return d


def jsonable(o):
  if isinstance(o, F):
    return "%d/%d" % (o.numerator, o.denominator)
  if isinstance(o, dict):
    return {k: jsonable(v) for k, v in o.items() if k not in ("tensor", "res", "fails")}
  if isinstance(o, (list, tuple)):
    return [jsonable(v) for v in o]
  return o


def report(ctx, problems):
  """Turn problem records into KNOWN-FINDING / VIOLATION lines (deduplicated by signature)."""
  seen_known, seen_sig = set(), set()
  # columns on which the implementation-side oracle has an unexplained failure
  bad_cols = set()
  for p in problems:
    if p["kind"] == "impl-violates":
      k = p.get("finding")
      if k is not None:
        if k["id"] not in seen_known:
          seen_known.add(k["id"])
          ctx.known("%s %s" % (k["id"], k.get("title", "")))
        continue
      bad_cols.add(id(p.get("col")))
  for p in problems:
    t = p["tensor"]
    if p["kind"] == "impl-violates":
      if p.get("finding") is not None:
        continue
      sig = ("impl", p["clause"], t["dtype"], t["diag"])
      if sig in seen_sig:
        continue
      seen_sig.add(sig)
      col = p.get("col")
      ctx.violation("impl-violates", dict(
          input=tensor_input(t, col), clause=p["clause"],
          expected="C11 clause '%s' holds on the implementation's output" % p["clause"],
          actual=jsonable(dict(fail=p.get("fail"), detail=p.get("detail"),
                               column=(dict(xs=col["xs"], q=col["q"], bucket=col["bucket"],
                                            deq=col["deq"], q2=col["q2"]) if col else None))),
          theorem_or_check="implementation-side oracle harness/c11.py:oracle_column"))
    else:
      sig = ("corr", p["clause"], t["dtype"], t["diag"])
      if sig in seen_sig:
        continue
      seen_sig.add(sig)
      col = p.get("col")
      has_input = col is not None and id(col) in bad_cols
      model = None
      if col is not None:
        try:
          model = ctx.coq_eval("diag%d" % len(seen_sig), HEADER,
                               [run_term(NB[t["dtype"]], col, t["diag"])])[0]
        except common.CoqError as e:
          model = "coq error: %s" % e
      ctx.violation("correspondence-broken", dict(
          input=tensor_input(t, col), clause=p["clause"],
          expected="binary32 model (C11.Model) == implementation, bit for bit; model gives %s" % model,
          actual=(dict(xs=col["xs"], q=col["q"], bucket=col["bucket"], deq=col["deq"],
                       q2=col["q2"], bucket2=col["bucket2"], deq2=col["deq2"]) if col else
                  dict(q=t["res"].get("q"))),
          theorem_or_check="correspondence C11.Check.%s" % (
              "chk_bf16" if col is None else ("chk_diagcol" if t["diag"] else "chk_col"))),
          no_input=not has_input and not any(
              q2["kind"] == "impl-violates" and q2.get("finding") is None for q2 in problems))


def load_corpus():
  d = os.path.join(common.VERIF, "corpus", "C11")
  out = []
  if os.path.isdir(d):
    for fn in sorted(os.listdir(d)):
      if fn.endswith(".json"):
        rec = json.load(open(os.path.join(d, fn)))
        for t in rec.get("tensors", []):
          out.append(dict(dtype=t["dtype"], diag=bool(t.get("diag")), shape=t["shape"],
                          bits=[int(b) for b in t["bits"]], kind="corpus:" + fn))
  return out


def setup(ctx):
  ctx.cov["rule"] = (
      "columns (axis 0 of float32 tensors of rank 1..3) generated from the run's PRNG: every "
      "exponent -149..127 x mantissa pattern {0,1,all-ones,random} x sign as column max / interior "
      "entry / constant column, zero and signed-zero columns, exact ties at .5 (bucket a power of "
      "two), entries one ulp off a tie, near-overflow maxima, the bucket flush boundary N*2^-126 +- "
      "6 ulps, mixed magnitudes, random finite bit patterns; square matrices with extract_diagonal; "
      "bfloat16/float32 cast modes.  A column is distinct by (dtype, diag, bit patterns) and "
      "non-trivial when its bucket is non-zero and some stored integer is not in {0, +-N}")
  ctx.assumptions += [
      "Coq 8.16.1 kernel + vm_compute (no native_compute, no PrimFloat)",
      "Flocq 4.1 IEEE754.BinarySingleNaN (prec 24, emax 128); binary32 theorems inherit the stdlib "
      "real-number axioms ClassicalDedekindReals.sig_not_dec, ClassicalDedekindReals.sig_forall_dec, "
      "FunctionalExtensionality.functional_extensionality_dep, Classical_Prop.classic",
      "XLA:CPU semantics modelled as observed and asserted bit-exactly on every run: DAZ/FTZ on "
      "div/mul/add/sub/max, a/broadcast(b) compiled as a*(1/b), round-half-even jnp.round, "
      "saturating float->int convert (NaN -> 0)",
      "half-bucket oracle constant bucket*(1/2 + (3N+2)*2^-24) is the bound of theorem "
      "half_bucket_f32 (a-priori rounding of x*fl(1/bucket) and q*bucket), not a tuned tolerance",
      "python fractions.Fraction for the implementation-side oracle"]
  return ctx.proofs(PROOF_FILES, extra_targets=EXTRA_TARGETS)


def run(ctx):
  setup(ctx)
  ctx.notes.append(
      "three regions violate the property on the unchanged code and are reproduced by the binary32 model "
      "(theorems half_bucket_f32_*_refuted): D12a bucket underflow (0 < max|col| < N*2^-126), D12b "
      "subnormal entries / diagonal entries read as zero (XLA:CPU DAZ), D13 N*bucket overflows to inf "
      "(max|col| within ~1 ulp of FLT_MAX).  They are proposed as known findings in "
      "/verif/proposed_findings/C11.json (no small repair); until accepted into known_findings.json the "
      "check reports them as VIOLATION impl-violates unless VERIF_PROPOSED_FINDINGS=1")
  known = common.load_known_findings("C11")
  corpus = load_corpus()
  cols = gen_columns(ctx)
  for c in cols:
    ctx.count("kind=" + c["kind"])
  tensors = corpus + pack(ctx, cols)
  dts = gen_diag_tensors(ctx)
  cts = gen_cast_tensors(ctx)
  for t in dts + cts:
    ctx.count("kind=" + t["kind"])
  tensors += dts + cts
  ctx.log("%d columns in %d tensors (+%d diag matrices, %d cast tensors, %d corpus)" % (
      len(cols), len(tensors), len(dts), len(cts), len(corpus)))
  problems = evaluate(ctx, tensors, known, "corr")
  report(ctx, problems)
  # findings listed but not reproduced in this run are noted (not an error)
  hit = set(p["finding"]["id"] for p in problems if p.get("finding"))
  for k in known:
    if k["id"] not in hit:
      ctx.notes.append("known finding %s did not reproduce in this run" % k["id"])
  ctx.flush_proof_failures()


def replay(ctx, rec):
  inp = rec.get("input")
  if not isinstance(inp, dict) or "bits" not in inp:
    print("replay: nothing executable in this record (%s)" % rec.get("theorem_or_check"))
    return 1
  ctx.proofs(PROOF_FILES, extra_targets=EXTRA_TARGETS)
  known = common.load_known_findings("C11")
  t = dict(dtype=inp["dtype"], diag=bool(inp.get("diag")), shape=inp["shape"],
           bits=[int(b) for b in inp["bits"]], kind="replay", spelling=inp.get("spelling", 0))
  problems = evaluate(ctx, [t], known, "replay")
  want = inp.get("column")
  shown = 0
  bad = False
  for p in problems:
    col = p.get("col")
    if want is not None and col is not None and col["j"] != want:
      continue
    if p.get("finding") is not None:
      print("known finding %s: %s" % (p["finding"]["id"], p["clause"]))
      continue
    bad = True
    if shown < 8:
      shown += 1
      print(json.dumps(jsonable(dict(kind=p["kind"], clause=p["clause"], fail=p.get("fail"),
                                     detail=p.get("detail"),
                                     column=(dict(j=col["j"], xs=col["xs"], q=col["q"],
                                                  bucket=col["bucket"], deq=col["deq"], q2=col["q2"])
                                             if col else None))), indent=1))
  print("implementation output:", json.dumps({k: v for k, v in t["res"].items() if k != "id"})[:2000])
  print("REPLAY %s" % ("reproduces" if bad else "does not reproduce"))
  return 1 if bad else 0
