"""C13 — device-count invariance of the distributed preconditioner computation.

Deciding method
  * Coq theorems (coq/theories/Properties/C13.v) about C13.Model, for ALL device counts D > 0, all
    numbers of statistics N, all per-item functions: padding -N % D, batch/unbatch round trip,
    pmap pipeline == map f, padding never selected, index layout, sharded padding / slices, and the
    shape effect of jnp.squeeze: explicit axes preserve every item shape (squeeze_axis0_safe, the
    code after "fix: unbatch squeezes only the two batching axes"), the former bare squeeze only
    shapes without unit dims (squeeze_safe + squeeze_safe_refuted, finding D9).
  * Tie (i): the REAL distributed_shampoo.batch()/unbatch() on tagged arrays, exhaustively for
    N <= 40, D <= 8 (divisible and non-divisible counts, several item shapes incl. unit dims),
    against the model evaluated by Coq's vm_compute (exact integers).
  * Tie (ii): jax.pmap of the optimizer on D forced host devices vs D = 1 (every leaf of the
    updates and of the state on every device, BITWISE), full / int16-quantized / compressed
    preconditioners; the batch() calls made inside the optimizer are recorded and Coq must predict
    their padded length and (replica, slot) dimensions; sharded mode across declared device counts.
"""
import json
import os
import re

from harness import common
from harness.common import zlist, zlit, blit

HEADER = "From Precond Require Import Base.PyLib C13.Model.\nOpen Scope Z_scope.\n"
WORKER = "harness.impl.c13_worker"
# Cross-device-count comparison.
#  * root="surrogate" runs (the per-statistic inverse root replaced, from outside, by an elementwise
#    exactly-rounded function of (statistic, exponent, padding_start); beta2 = 1 so that the
#    statistics update has no contractible multiply-add): BITWISE, no tolerance.
#  * root="real" runs: bitwise on the devices of one run.  Across device counts they are a coarse
#    MONITOR only: XLA:CPU contracts / re-fuses w1*S + w2*G G^T and vectorises the vmapped reductions
#    differently for different per-replica batch sizes, so the statistic fed to the root can differ
#    by 1 ulp (u = 6e-8) from one device count to another, and the inverse p-th root of a matrix
#    regularised with ridge 1e-6*lambda_max (condition number up to 1e6) amplifies that by up to
#    kappa*u/p ~ 1e-2 (seen: 2.3e-5 with Newton, iteration counts differing by one; 9.6e-4 with the
#    eigh-based low-rank root).  Such runs are classified "rounding-level" when no structural /
#    exact-integer leaf differs, float leaves agree within TAU_REAL = 2^-6 relative to the leaf's
#    max-abs and quantized integers within TAU_REAL * 2^15 buckets; diagnostic training_metrics
#    leaves are not compared in value.  Negative compression ranks (which keep the eigenvectors of
#    the numerically degenerate SMALLEST eigenvalues, an ill-posed function of the statistic) are
#    exercised with the surrogate root only.  A routing error changes preconditioners by O(1) and is
#    decided bitwise by the surrogate runs.
TAU_REAL = 2.0 ** -6
QINT_TOL = TAU_REAL * 2 ** 15

D9_ID = "C13-D9-unbatch-squeeze-1x1"
ULP_ID = "C13-real-root-not-bitwise-across-D"


# ------------------------------------------------------------------------------------------------
# case generation
# ------------------------------------------------------------------------------------------------
def list_cases(ctx):
  quick = ctx.tier == "quick"
  cases = []
  bshapes = [[], [2, 2]] if quick else [[], [2], [3], [2, 2], [1], [1, 1], [1, 3], [2, 1, 2]]
  for s in bshapes:
    for n in range(0, 41):
      for D in range(1, 9):
        cases.append(dict(kind="batch", n=n, D=D, shape=s))
  ushapes = [[], [2], [3], [2, 2], [1], [1, 1], [1, 3], [2, 1, 2], [3, 1]]
  for s in ushapes:
    for b1 in range(1, 9):
      for b2 in range(1, 6 if quick else 9):
        cases.append(dict(kind="unbatch", b1=b1, b2=b2, shape=s))
  for s in ([[2], [1, 1]] if quick else [[2, 2], [], [1, 1], [3], [1, 2]]):
    for N in range(1, 41):
      for D in range(1, 9):
        cases.append(dict(kind="roundtrip", N=N, D=D, shape=s))
  return cases


SHAPES_BY_RANK = {1: [[2], [3], [4], [5]], 2: [[3, 2], [2, 2], [4, 3], [2, 4]], 3: [[2, 2, 2], [2, 3, 2]]}


def make_tree(rng, N, need_big):
  """Parameter shapes whose statistics count is exactly N when shapes are not merged
  (best_effort_shape_interpretation=False) and no dimension exceeds the block size."""
  shapes, left = [], N
  if need_big and left >= 1:
    shapes.append([5])
    left -= 1
  while left > 0:
    r = rng.choice([k for k in (1, 1, 2, 2, 3) if k <= left])
    shapes.append(list(rng.choice(SHAPES_BY_RANK[r])))
    left -= r
  return rng.shuffle(shapes)


GRAFTS = ["SGD", "ADAGRAD", "RMSPROP", "RMSPROP_NORMALIZED", "SQRT_N"]


def e2e_cases(ctx):
  quick = ctx.tier == "quick"
  rng = ctx.rng
  cases = []
  if quick:
    Ns = [1, 2, 3, 5, 7, 12, 21, 30]
    extra = rng.shuffle([4, 6, 9, 10, 11, 13, 14, 15, 17, 19, 22, 23, 25, 26, 27, 29])[:1]
    Ns = Ns + extra
    Dsets = [[1, 2, 3, 8]]
  else:
    Ns = list(range(1, 31))
    Dsets = [[1, 2, 3, 4], [1, 5, 6, 7, 8]]
  modes = ["full", "quant", "compressed"]
  for i, N in enumerate(Ns):
    for mode in (modes if not quick else [modes[i % 3], modes[(i + 1) % 3]] if N > 12 else modes):
      kw = dict(best_effort_shape_interpretation=False,
                start_preconditioning_step=rng.choice([0, 1, 2]),
                graft_type=rng.choice(GRAFTS), nesterov=bool(rng.below(2)),
                preconditioning_compute_steps=rng.choice([1, 1, 2]),
                statistics_compute_steps=rng.choice([1, 1, 2]))
      block = 8
      if mode == "quant":
        kw["best_effort_memory_usage_reduction"] = True
      elif mode == "compressed":
        kw["compression_rank"] = rng.choice([1, 2, -1])
      else:
        if rng.below(3) == 0:
          kw["eigh"] = True
        if rng.below(3) == 0:
          kw["reuse_preconditioner"] = True
      shapes = make_tree(rng, N, need_big=(mode == "compressed"))
      if mode != "compressed" and N >= 4 and rng.below(3) == 0:
        # a blocked parameter: (5,3) with block 4 -> blocks (4,3),(1,3) -> 4 statistics (one is 1x1)
        block = 4
        shapes = [s for s in make_tree(rng, N - 4, False) if max(s) <= 4] + [[5, 3]]
        if sum(len(s) for s in shapes if s != [5, 3]) != N - 4:
          block, shapes = 8, make_tree(rng, N, False)
      for Ds in Dsets:
        seed = rng.next() % (1 << 31)
        roots = ["surrogate"] + (["real"] if (i + modes.index(mode)) % 3 == 0 else [])
        for root in roots:
          # surrogate runs: beta2 = 1 so that the statistics update S + G G^T contains no
          # multiply-add that XLA may or may not contract into an FMA depending on the program
          # shape (observed: the statistic consumed by the root differs by 1 ulp from the stored one)
          kw_r = dict(kw, beta2=1.0) if root == "surrogate" else dict(kw)
          if root == "real" and kw_r.get("compression_rank", 0) < 0:
            kw_r["compression_rank"] = -kw_r["compression_rank"]
          cases.append(dict(kind="pmap", N_target=N, mode=mode, root=root, shapes=shapes,
                            block_size=block, kw=kw_r, Ds=Ds, steps=3, seed=seed))
          if root == "surrogate" and len(shapes) > 1 and (i + modes.index(mode)) % 2 == 0:
            # some roots fail while others succeed (added after a seeded change that shifted the
            # per-statistic errors by the padding count was missed: with every root accepted the
            # errors never mattered)
            rl = rng.below(len(shapes))
            cases.append(dict(kind="pmap", N_target=N, mode=mode, root=root, shapes=shapes,
                              block_size=block, kw=kw_r, Ds=Ds, steps=3, seed=seed, reject_leaf=rl))
            if mode != "quant":
              # the same without training metrics in the state: the gathered root errors still decide
              # which preconditioners are replaced (added after a seeded change that skipped the gather
              # of the metrics in that mode was missed)
              cases.append(dict(kind="pmap", N_target=N, mode=mode, root=root, shapes=shapes,
                                block_size=block, kw=dict(kw_r, generate_training_metrics=False), Ds=Ds,
                                steps=3, seed=seed, reject_leaf=rl))
  # sharded variant (eager, slow): small trees, declared device counts
  if quick:
    sh = [(0, [1, 3]), (1, [1, 2, 8]), (4, [1, 3, 8]), (5, [1, 2, 3, 8]), (7, [1, 2, 8])]
  else:
    sh = [(0, [1, 2, 3, 4, 5, 6, 7, 8])] + [(N, [1, 2, 3, 4, 5, 6, 7, 8]) for N in (1, 2, 3, 4, 5, 6, 7, 9, 11)]
  for N, Ds in sh:
    kw = dict(best_effort_shape_interpretation=False, start_preconditioning_step=rng.choice([0, 1]),
              graft_type=rng.choice(GRAFTS[:4]))
    if N == 0:
      kw["skip_preconditioning_rank_lt"] = 2
      shapes = [[3], [4]]
    else:
      shapes = make_tree(rng, N, need_big=(N == 5))
    if N == 5:
      kw["compression_rank"] = 1
    root = "real" if N in (1, 9) else "surrogate"
    if root == "surrogate":
      kw["beta2"] = 1.0
    cases.append(dict(kind="sharded", N_target=N, mode="sharded", root=root, shapes=shapes,
                      block_size=8, kw=kw, Ds=Ds, steps=2 if quick else 3,
                      seed=rng.next() % (1 << 31)))
  # finding D9 probe: every statistic is 1x1 -> unbatch's bare squeeze drops the matrix dims
  cases.append(dict(kind="pmap", N_target=1, mode="d9probe", root="real", shapes=[[1]], block_size=8,
                    kw=dict(start_preconditioning_step=1), Ds=[1, 2], steps=2, seed=11))
  return cases


# ------------------------------------------------------------------------------------------------
# running + model evaluation
# ------------------------------------------------------------------------------------------------
def arrs_lit(out):
  return "[" + "; ".join("mkarr %s %s" % (zlist(sh), zlist(da)) for sh, da in out) + "]"


def run_list_cases(ctx, cases, tag="list"):
  n = common.NPROC
  chunks = [cases[i::n] for i in range(n)]
  chunks = [c for c in chunks if c]
  outs = common.run_workers_parallel(WORKER, [dict(cases=c) for c in chunks], timeout=3000)
  results = [r for o in outs for r in o["results"]]
  terms, idx = [], []
  for i, r in enumerate(results):
    c = r["case"]
    if r["kind"] == "batch":
      terms.append("chk_batch %s %s %s %s %s %s" % (zlit(c["n"]), zlit(c["D"]), zlist(c["shape"]),
                                                    blit(r["raised"]), zlist(r["oshape"]),
                                                    zlist(r["odata"])))
      idx.append((i, "batch"))
    elif r["kind"] == "unbatch":
      if r["raised"]:
        continue
      terms.append("chk_unbatch %s %s %s %s" % (zlit(c["b1"]), zlit(c["b2"]), zlist(c["shape"]),
                                                arrs_lit(r["out"])))
      idx.append((i, "unbatch"))
    elif r["kind"] == "roundtrip":
      if "layout" in r:
        terms.append("chk_layout %s %s %s" % (zlit(c["N"]), zlit(c["D"]), common.zlistlist(r["layout"])))
        idx.append((i, "layout"))
      if "kept" in r:
        terms.append("chk_pipeline %s %s %s" % (zlit(c["N"]), zlit(c["D"]), zlist(r["kept"])))
        idx.append((i, "pipeline"))
  vals = ctx.coq_eval(tag, HEADER, terms, per_shard=120)
  for (i, what), v in zip(idx, vals):
    results[i].setdefault("model", {})[what] = v
  return results


def has_unit(shape):
  return any(d == 1 for d in shape)


def judge_list(ctx, results, state):
  """Returns list of (kind, record).  state['squeeze_codes'] collects the unbatch variant."""
  out = []
  for r in results:
    c = r["case"]
    k = r["kind"]
    m = r.get("model", {})
    if k == "batch":
      divisible = c["n"] > 0 and c["n"] % c["D"] == 0
      # property on the implementation: divisible counts must batch into (D, n/D) + shape with the
      # items in order
      size = 1
      for d in c["shape"]:
        size *= d
      if divisible:
        exp_shape = [c["D"], c["n"] // c["D"]] + c["shape"]
        exp_data = [i * 1000 + j for i in range(c["n"]) for j in range(size)]
        if r["raised"] or r["oshape"] != exp_shape or r["odata"] != exp_data:
          out.append(("impl-violates", dict(
              input=c, expected="batch() stacks n items into (D, n/D)+shape keeping the order",
              actual=dict(raised=r["raised"], exc=r.get("exc"), oshape=r["oshape"], odata=r["odata"][:64]),
              theorem_or_check="c13_batch_unbatch_id / implementation-side oracle")))
          continue
      if m.get("batch") != "true":
        out.append(("correspondence-broken", dict(
            input=c, expected="C13.Model.batch_arr == distributed_shampoo.batch (shape, data, raised)",
            actual=dict(raised=r["raised"], exc=r.get("exc"), oshape=r["oshape"], model=m.get("batch")),
            theorem_or_check="correspondence chk_batch")))
    elif k == "unbatch":
      exp_items = c["b1"] * c["b2"]
      size = 1
      for d in c["shape"]:
        size *= d
      flat = [x for _, da in r["out"] for x in da]
      if r["raised"] or len(r["out"]) != exp_items or flat != list(range(exp_items * size)):
        out.append(("impl-violates", dict(
            input=c, expected="unbatch() returns the b1*b2 items in replica-major order",
            actual=dict(raised=r["raised"], exc=r.get("exc"), n=len(r["out"]), head=flat[:32]),
            theorem_or_check="c13_unbatch_batch_data / implementation-side oracle")))
        continue
      code = m.get("unbatch")
      if has_unit(c["shape"]):
        state["squeeze_codes"].setdefault(code, []).append(c)
        if code not in ("1", "2"):
          out.append(("correspondence-broken", dict(
              input=c, expected="unbatch shapes follow the bare-squeeze model (1) or the explicit-axis model (2)",
              actual=dict(code=code, shapes=[sh for sh, _ in r["out"]][:4]),
              theorem_or_check="correspondence chk_unbatch")))
      elif code != "3":
        out.append(("correspondence-broken", dict(
            input=c, expected="C13.Model.unbatch_arr == distributed_shampoo.unbatch",
            actual=dict(code=code, shapes=[sh for sh, _ in r["out"]][:4]),
            theorem_or_check="correspondence chk_unbatch")))
    elif k == "roundtrip":
      if not r["ok"]:
        out.append(("impl-violates", dict(
            input=c, expected="first N of unbatch(all_gather(f(batch(pad(x))))) == map f x",
            actual=dict(why=r["why"], exc=r.get("exc"), kept=r.get("kept"), layout=r.get("layout")),
            theorem_or_check="c13_device_count_invariant / implementation-side oracle")))
        continue
      if m.get("layout") != "true" or m.get("pipeline") != "true":
        out.append(("correspondence-broken", dict(
            input=c, expected="model layout / pipeline == implementation",
            actual=dict(model=m, layout=r.get("layout"), kept=r.get("kept")),
            theorem_or_check="correspondence chk_layout / chk_pipeline")))
      if has_unit(c["shape"]):
        kept_ok = all(sh == c["shape"] for sh in r["kept_shapes"])
        state["roundtrip_shape_ok"].append(kept_ok)
      elif any(sh != c["shape"] for sh in r["kept_shapes"]):
        out.append(("impl-violates", dict(
            input=c, expected="item shapes without unit dims are preserved by unbatch",
            actual=dict(kept_shapes=r["kept_shapes"][:4]),
            theorem_or_check="c13_squeeze_safe / implementation-side oracle")))
  return out


def run_e2e_cases(ctx, cases, tag="e2e"):
  # most expensive first
  order = sorted(range(len(cases)), key=lambda i: -(
      (40 if cases[i]["kind"] == "sharded" else 1) * (2 + cases[i]["N_target"]) * len(cases[i]["Ds"])))
  outs = common.run_workers_parallel(WORKER, [dict(cases=[cases[i]]) for i in order], devices=8,
                                     timeout=3000, max_procs=common.NPROC)
  results = [None] * len(cases)
  for i, o in zip(order, outs):
    results[i] = o["results"][0]
  slow = sorted(((r.get("secs", 0), r["case"]["kind"], r["case"]["N_target"], r["case"].get("root"))
                 for r in results), reverse=True)[:5]
  ctx.log("slowest end-to-end cases (s, kind, N, root):", slow)
  # model predictions
  terms, idx = [], []
  for i, r in enumerate(results):
    if r["kind"] == "pmap":
      for D, run in r["runs"].items():
        if "nstats" not in run:
          continue
        N = sum(run["nstats"])
        terms.append("(%s + pad_count %s %s, batched_dims (%s + pad_count %s %s) %s)" % (
            zlit(N), D, zlit(N), zlit(N), D, zlit(N), D))
        idx.append((i, D, "dims"))
    else:
      for D, run in r["runs"].items():
        if "N" not in run:
          continue
        terms.append("(sharded_rows %s %s, index_starts (A:=Z) %s)" % (
            zlit(run["N"]), D,
            "[" + "; ".join("repeat_z 0 %d" % k for k in run["sizes"]) + "]"))
        idx.append((i, D, "rows"))
  vals = ctx.coq_eval(tag, HEADER, terms, per_shard=100)
  for (i, D, what), v in zip(idx, vals):
    results[i]["runs"][D].setdefault("model", {})[what] = v
  return results


def _ints(s):
  return [int(x) for x in re.findall(r"-?\d+", s)]


def judge_e2e(ctx, r, state):
  out = []
  c = r["case"]
  runs = r["runs"]
  Ds = [str(D) for D in c["Ds"]]
  refD = Ds[0]
  ref = runs[refD]
  mode = c["mode"]
  excs = {D: runs[D].get("exc") for D in Ds}
  if all(excs.values()):
    kinds = set(e.split(":")[0] for e in excs.values())
    d9 = all("0-dimensional" in e for e in excs.values()) and all(max(s or [1]) == 1 for s in c["shapes"])
    if d9:
      state["d9_e2e"] = dict(input=c, exc=excs[refD])
    elif mode == "d9probe":
      pass
    else:
      out.append(("impl-violates", dict(
          input=c, expected="the optimizer runs on every device count", actual=excs,
          theorem_or_check="end-to-end pmap/sharded run (all device counts crash: %s)" % sorted(kinds))))
    return out
  if ref.get("exc"):
    out.append(("impl-violates", dict(
        input=c, expected="reference device count %s runs" % refD, actual=excs,
        theorem_or_check="end-to-end run")))
    return out
  if mode == "d9probe":
    state["d9_e2e_absent"] = True
  for D in Ds:
    run = runs[D]
    if run.get("exc"):
      out.append(("impl-violates", dict(
          input=dict(c, Ds=[int(refD), int(D)]), expected="D=%s behaves like D=%s" % (D, refD),
          actual=dict(exc=run["exc"], trace=run.get("trace", "")[-800:]),
          theorem_or_check="c13_device_count_invariant / end-to-end bitwise oracle")))
      continue
    if not run.get("finite", True):
      state["nonfinite"] += 1
    if run.get("device_mismatch"):
      out.append(("impl-violates", dict(
          input=dict(c, Ds=[int(D)]), expected="all %s devices hold identical bits" % D,
          actual=run["device_mismatch"], theorem_or_check="end-to-end bitwise oracle (per device)")))
      continue
    cmp = run.get("cmp")
    if cmp and cmp["n"]:
      soft = (c.get("root") == "real" and cmp["hard"] == 0 and cmp["float_rel"] <= TAU_REAL
              and cmp["qint_abs"] <= QINT_TOL)
      if soft:
        state["ulp_cases"].append(dict(kind=c["kind"], mode=mode, N=c["N_target"], D=int(D),
                                       float_rel=cmp["float_rel"], leaves=cmp["n"]))
      else:
        out.append(("impl-violates", dict(
            input=dict(c, Ds=[int(refD), int(D)]),
            expected="updates and every state leaf identical to D=%s (%s)" % (
                refD, "bitwise" if c.get("root") != "real" else
                "bitwise, or rounding-level: float rel <= 2^-6, quantized ints within 512 buckets"),
            actual=cmp, theorem_or_check="c13_device_count_invariant / end-to-end oracle")))
        continue
    elif cmp is not None and c.get("root") == "real":
      state["real_bitwise"] += 1
    # model side: layout of the batch() calls made inside the optimizer
    m = run.get("model", {})
    if c["kind"] == "pmap":
      N = sum(run["nstats"])
      pred = _ints(m.get("dims", ""))
      to_pad = (-N) % int(D)
      bad = []
      if "None" in m.get("dims", "None") or len(pred) != 3:
        bad.append("model batch fails: %s" % m.get("dims"))
      for call in run["calls"]:
        if bad:
          break
        if [call["n"]] + call["dims"] != pred or call["D"] != int(D):
          bad.append("batch(len=%d, D=%d) -> dims %s, model predicts (n, b1, b2) = %s" % (
              call["n"], call["D"], call["dims"], pred))
      intlists = [cl["ints"] for cl in run["calls"] if cl["ints"] is not None]
      if len(intlists) >= 2 and not bad:
        if intlists[0][N:] != [1] * to_pad:
          bad.append("padding exponents %s, model dummy has exponent 1" % intlists[0][N:])
        if intlists[1][N:] != [0] * to_pad:
          bad.append("padding 'paddings' %s, model dummy has padding_start 0" % intlists[1][N:])
      if not run["calls"] and N > 0:
        bad.append("no batch() call observed")
      if bad:
        out.append(("correspondence-broken", dict(
            input=dict(c, Ds=[int(D)]), expected="C13.Model layout (pad_count, batched_dims, dummy=(I,1,0))",
            actual=bad, theorem_or_check="correspondence of recorded batch() calls",
            note="bitwise cross-device oracle found nothing wrong on this input")))
    else:
      pred = _ints(m.get("rows", ""))
      bad = []
      if not pred or pred[0] != run["rows"]:
        bad.append("global rows %d, model sharded_rows = %s" % (run["rows"], pred[:1]))
      elif pred[1:] != run["index_starts"]:
        bad.append("index_starts %s, model %s" % (run["index_starts"], pred[1:]))
      if run["rows"] % int(D) != 0 or run["rows"] <= 0:
        out.append(("impl-violates", dict(
            input=dict(c, Ds=[int(D)]), expected="global stack has a positive multiple of D rows",
            actual=run["rows"], theorem_or_check="c13_sharded_any_D")))
      elif not run["padding_rows_identity_exp1"]:
        bad.append("padding rows are not (identity, exponent 1)")
      if bad:
        out.append(("correspondence-broken", dict(
            input=dict(c, Ds=[int(D)]), expected="C13.Model sharded layout", actual=bad,
            theorem_or_check="correspondence of the sharded global stack",
            note="cross-device-count oracle found nothing wrong on this input")))
  return out


# ------------------------------------------------------------------------------------------------
def new_state():
  return dict(squeeze_codes={}, roundtrip_shape_ok=[], ulp_cases=[], nonfinite=0, real_bitwise=0)


def known_by_id(known, kid):
  for k in known:
    if k.get("id") == kid and k.get("status", "open") == "open":
      return k
  return None


def report(ctx, verdicts, reported):
  for kind, rec in verdicts:
    sig = (kind, rec.get("theorem_or_check"), json.dumps(rec.get("input", {}).get("kind", "")),
           json.dumps(rec.get("input", {}).get("mode", "")))
    if sig in reported:
      continue
    reported.add(sig)
    ctx.violation(kind, rec, no_input=(kind == "correspondence-broken"))


def translator_obligations(ctx):
  """Regenerate the translation of distributed_shampoo.batch from /repo and re-prove it equal to C13.Ref
  (linked to the model's chunking by c13_source_batch_is_model)."""
  from tools import targets
  text, errors = targets.generate_c13(common.REPO)
  ctx.cov["obligations"] += 2
  if errors:
    ctx.proof_failure("translate distributed_shampoo.batch", json.dumps(errors))
    return
  ok, out = ctx.gen_obligation("Gen", text)
  if not ok:
    ctx.proof_failure("compile gen/C13/Gen.v (translation of batch)", out[-2000:])
    return
  ctx.cov["discharged"] += 1
  ob = ("From Precond Require Import Base.PyLib Base.PyLib2.\nFrom Precond Require C13.Ref.\n"
        "From PrecondGen Require C13.Gen.\n"
        "Lemma gen_eq_batch_src : C13.Gen.batch_src = C13.Ref.batch_src.\nProof. reflexivity. Qed.\n")
  ok, out = ctx.gen_obligation("GenEq_batch_src", ob)
  if ok:
    ctx.cov["discharged"] += 1
  else:
    ctx.proof_failure("GenEq_batch_src (Gen = Ref)", out[-2000:])


def run(ctx):
  ctx.cov["rule"] = (
      "(i) exhaustive: batch() for n in 0..40 x D in 1..8 x item shapes, unbatch() for b1 in 1..8 x "
      "b2 x item shapes (with and without unit dims), pad+batch+f+unbatch round trip for N in 1..40 "
      "x D in 1..8; (ii) random parameter trees from the run's PRNG with a prescribed number N of "
      "statistics (all residues N mod D), modes full/int16-quantized/compressed, random graft type / "
      "intervals / start step, 3 gradient steps, D in {1,2,3,8} (quick) or 1..8 (thorough); sharded "
      "mode for declared device counts.  A case is non-trivial when D > 1 (and for (ii) counted "
      "distinct by (N, D, mode)); padding is exercised when N mod D != 0")
  ctx.assumptions += [
      "Coq 8.16.1 kernel + vm_compute",
      "XLA/JAX execution (pmap, vmap, all_gather, with_sharding_constraint) is observed, not modelled: "
      "the theorems treat the per-replica computation as map f over the replica's chunk",
      "routing (pad/batch/slice/all_gather/unbatch/first N) is decided BITWISE on runs whose per-statistic "
      "root is replaced from outside by an elementwise exactly-rounded surrogate (beta2 = 1); runs with the "
      "real root kernels are bitwise across the devices of one run and a coarse monitor across device "
      "counts (float leaves within 2^-6 of the leaf max-abs, see TAU_REAL in harness/c13.py): XLA:CPU "
      "rounding depends on the per-replica batch size and the root amplifies it by its condition number",
      "forced host-platform CPU devices stand for accelerator devices"]
  ctx.proofs(["Properties/C13.v"])
  translator_obligations(ctx)
  known = common.load_known_findings("C13")
  state = new_state()
  reported = set()

  # corpus first
  cdir = os.path.join(common.VERIF, "corpus", "C13")
  corpus = []
  for f in sorted(os.listdir(cdir)) if os.path.isdir(cdir) else []:
    if f.endswith(".json"):
      corpus.append(json.load(open(os.path.join(cdir, f))))
  lcorp = [c for c in corpus if c.get("kind") in ("batch", "unbatch", "roundtrip")]
  ecorp = [c for c in corpus if c.get("kind") in ("pmap", "sharded")]

  # (i) list-level correspondence
  lcases = lcorp + list_cases(ctx)
  ctx.log("%d list-level cases" % len(lcases))
  lres = run_list_cases(ctx, lcases)
  for r in lres:
    c = r["case"]
    D = c.get("D", c.get("b1"))
    ctx.case(json.dumps(c, sort_keys=True), nontrivial=(D > 1))
    ctx.count("list:" + r["kind"])
  report(ctx, judge_list(ctx, lres, state), reported)
  ctx.log("list-level done")

  # (ii) end to end
  ecases = ecorp + e2e_cases(ctx)
  ctx.log("%d end-to-end cases" % len(ecases))
  eres = run_e2e_cases(ctx, ecases)
  for r in eres:
    c = r["case"]
    for D in c["Ds"]:
      run_ = r["runs"].get(str(D), {})
      N = sum(run_["nstats"]) if "nstats" in run_ else run_.get("N", c["N_target"])
      ctx.case((c["kind"], c["mode"], c.get("root"), N, D, c["seed"]), nontrivial=(D > 1),
               sample=dict(kind=c["kind"], mode=c["mode"], shapes=c["shapes"], kw=c["kw"], D=D, N=N,
                           digest=run_.get("digest"), calls=(run_.get("calls") or [])[:2])
               if (D == 3 and len(ctx.cov["samples"]) < 6) else None)
      ctx.count("e2e:%s:%s:%s" % (c["kind"], c["mode"], c.get("root")))
      ctx.count("D=%d" % D)
      ctx.count("N=%d" % N)
      ctx.count("N mod D = %d (D=%d)" % (N % D, D))
      if N != c["N_target"] and "exc" not in run_:
        ctx.count("N differs from generator target")
    report(ctx, judge_e2e(ctx, r, state), reported)

  # findings of the unchanged code
  codes = state["squeeze_codes"]
  ctx.cov["unbatch_unit_dim_variant"] = {k: len(v) for k, v in codes.items()}
  d9_present = "1" in codes
  if d9_present and "2" in codes:
    ctx.violation("correspondence-broken", dict(
        input=dict(bare=codes["1"][0], axis=codes["2"][0]),
        expected="unbatch treats unit dimensions uniformly (either squeeze variant)",
        actual={k: len(v) for k, v in codes.items()}, theorem_or_check="correspondence chk_unbatch"),
        no_input=True)
  if d9_present:
    # /repo carries the repair (fix: unbatch squeezes only the two batching axes); seeing the bare
    # squeeze again is a regression of the shape clause (c13_squeeze_axis0_safe), reported with the
    # concrete unit-dim input unless an open known finding covers it.
    text = ("%s unbatch()'s bare jnp.squeeze drops unit dims of the items: 1x1 statistics come back "
            "0-dimensional (Coq witness c13_squeeze_safe_refuted; real unbatch on %d unit-dim cases; "
            "optimizer with only 1x1 statistics: %s)" % (
                D9_ID, len(codes["1"]),
                state.get("d9_e2e", {}).get("exc", "runs" if state.get("d9_e2e_absent") else "not probed")))
    if known_by_id(known, D9_ID):
      ctx.known(text)
    else:
      c0 = codes["1"][0]
      ctx.violation("impl-violates", dict(
          input=c0, expected="unbatch() returns every item with its own shape %s (explicit-axis "
          "squeeze, theorem c13_squeeze_axis0_safe)" % (c0["shape"],),
          actual=text, end_to_end=state.get("d9_e2e"),
          theorem_or_check="c13_squeeze_axis0_safe / c13_squeeze_safe_refuted (finding D9)"))
  else:
    ctx.notes.append("unbatch follows the explicit-axis model on all %d unit-dim cases (D9 repaired)" % (
        len(codes.get("2", []))))
  ctx.cov["real_root_runs_bitwise_equal_to_D1"] = state["real_bitwise"]
  if state["ulp_cases"]:
    worst = max(x["float_rel"] for x in state["ulp_cases"])
    text = ("%s with the real inverse-root kernels %d of %d (tree, D) runs differ from D=1 at rounding "
            "level (max relative difference %.3g <= 2^-6; XLA vectorises the vmapped reductions by "
            "per-replica batch size); the devices of one run agree bitwise and surrogate-root runs are "
            "bitwise identical across D" % (
                ULP_ID, len(state["ulp_cases"]), len(state["ulp_cases"]) + state["real_bitwise"], worst))
    ctx.cov["real_root_not_bitwise"] = state["ulp_cases"][:12]
    if known_by_id(known, ULP_ID):
      ctx.known(text)
    else:
      ctx.notes.append("finding (not in known_findings.json, see proposed_findings/C13.json): " + text)
  if state["nonfinite"]:
    ctx.notes.append("%d runs produced non-finite values (compared bitwise anyway)" % state["nonfinite"])
  ctx.flush_proof_failures()


def replay(ctx, rec):
  c = rec.get("input")
  if not isinstance(c, dict) or "kind" not in c:
    print("replay: nothing executable in this record (%s)" % rec.get("theorem_or_check"))
    return 1
  ctx.proofs(["Properties/C13.v"])
  state = new_state()
  if c["kind"] in ("batch", "unbatch", "roundtrip"):
    res = run_list_cases(ctx, [c], tag="replay")
    verdicts = judge_list(ctx, res, state)
    if c["kind"] == "unbatch" and has_unit(c["shape"]):
      print("unit-dim variant code (1 = bare squeeze / D9, 2 = explicit axis):", list(state["squeeze_codes"]))
      if "1" in state["squeeze_codes"]:
        verdicts.append(("impl-violates", dict(actual="bare squeeze: unit dims of the items dropped (D9)")))
  else:
    res = run_e2e_cases(ctx, [c], tag="replay")
    verdicts = judge_e2e(ctx, res[0], state)
  print(json.dumps([{k: v for k, v in r.items() if k != "case"} for r in res], indent=1, default=str)[:6000])
  for kind, v in verdicts:
    print("REPLAY verdict:", kind, json.dumps(v.get("actual"), default=str)[:800])
  print("REPLAY %s" % ("reproduces" if verdicts else "does not reproduce"))
  return 1 if verdicts else 0
