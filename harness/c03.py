"""C03 — a preconditioner is replaced only by a verified root; failures never leak.

Deciding method: Coq theorems (Properties/C03.v) over the IEEE special-value lattice
(C03/FloatCls.v) about the acceptance gate skip/select (replicated), qselect (int16-quantized),
blend / wselect (sharded) and a history machine with an arbitrary statistics update and an oracle
root kernel -- all values, all histories.  Tie to /repo/precondition/distributed_shampoo.py:
public-API correspondence with fault injection.  For every update of every stored preconditioner
the harness observes (bitwise) whether it changed, whether it is finite and the reported
inverse_pth_root_error; Coq decides on the exact rationals of the observed float32 error and
threshold (a) the property  unchanged or (refresh and error finite and error < threshold)  and
(b) that the model's select predicts which of the two cases occurred.
"""
import itertools
import json
import math
import os
import re
import struct

from harness import common
from harness.common import blit

HEADER = "From Precond Require Import C03.FloatCls C03.Model.\nOpen Scope Z_scope.\n"
PROPS = ["Properties/C03.v"]
# parameter trees.  "main": statistics 1x1 (padded to 4x4), 2x2, 3x3, 4x4, and -- through x:(1,3)
# with best_effort_shape_interpretation=False -- a 1x1 next to a 3x3 of the same parameter.
# "unit": a lone u:(1,), the only way to reach the scalar (matrix_size == 1) branch of
# matrix_inverse_pth_root, because statistics are padded to the largest one of the tree.
TREES = {"main": ["u", "v", "w", "x"], "unit": ["u"]}
SIZES = {"u": 1, "v": 2, "w": 12, "x": 3}
STAT_LABELS = {"u": ["u[0] 1x1"], "v": ["v[0] 2x2"], "w": ["w[0] 3x3", "w[1] 4x4"],
               "x": ["x[0] 1x1", "x[1] 3x3"]}


def names_of(grads):
  return sorted(grads[0].keys())


def stat_labels(names):
  return [l for k in names for l in STAT_LABELS[k]]
KINDS = ["nan", "inf", "-inf", "zero", "1e12", "-1e12", "1e30", "-1e30", "1e-12", "1e-30"]
THRS = [0.0, 1e-30, 0.1, 1e30]
EPSS = [0.0, 1e-6]
MODES = ["replicated", "pmapq", "sharded"]
CAND_TOL = 1e-3     # "the candidate root clearly differs from the old preconditioner"


def f32(x):
  return struct.unpack("<f", struct.pack("<f", float(x)))[0]


def dec(x):
  return float(x) if isinstance(x, str) else x


def enc(x):
  x = float(x)
  if x != x:
    return "nan"
  if x in (float("inf"), float("-inf")):
    return "inf" if x > 0 else "-inf"
  return x


def fv_lit(x):
  """literal of C03.FloatCls.fv from a float (exact rational for finite values)."""
  x = dec(x)
  if x != x:
    return "FNaN"
  if x == float("inf"):
    return "FPInf"
  if x == float("-inf"):
    return "FNInf"
  return "(FFin %s)" % common.qlit(float(x))


# ----------------------------------------------------------------------------------------------
# generation of fault-injected histories
# ----------------------------------------------------------------------------------------------
def base_grad(rng, scale, names):
  return {k: [f32(rng.normal() * scale) for _ in range(SIZES[k])] for k in names}


def fault_grad(rng, kind, scope, scale, names):
  g = base_grad(rng, scale, names)
  if kind in ("nan", "inf", "-inf"):
    val = kind
  elif kind == "zero":
    val = 0.0
  else:
    val = float(kind)
  if scope == "whole" or kind == "zero":
    for k in names:
      if isinstance(val, str) or val == 0.0:
        g[k] = [val] * SIZES[k]
      else:
        g[k] = [f32(val * (1.0 if rng.below(2) else -1.0)) for _ in range(SIZES[k])]
  else:
    k = rng.choice(names)
    i = rng.below(SIZES[k])
    g[k][i] = val if isinstance(val, str) else f32(val)
  return g


def gen_history(rng, T, names, positions=None):
  scale = rng.choice([1e-2, 1.0, 1.0, 10.0])
  if positions is None:
    nf = rng.choice([0, 1, 1, 2, 2, 3, 3])
    positions = sorted(rng.shuffle(list(range(T)))[:nf])
  faults = {}
  grads = []
  for t in range(T):
    if t in positions:
      kind = rng.choice(KINDS)
      scope = rng.choice(["entry", "whole"])
      faults[t] = "%s/%s" % (kind, scope)
      grads.append(fault_grad(rng, kind, scope, scale, names))
    else:
      grads.append(base_grad(rng, scale, names))
  return dict(grads=grads, faults=faults, scale=scale)


def structured_histories(rng, names):
  """always-run histories aimed at the corners of the gate (error == threshold, NaN error,
  faults on refresh and on non-refresh steps, overflow and underflow of the statistics)."""
  hs = []
  z = {k: [0.0] * SIZES[k] for k in names}
  b = lambda: base_grad(rng, 1.0, names)
  fg = lambda r, kind, scope, sc: fault_grad(r, kind, scope, sc, names)
  hs.append(dict(grads=[z, z, z, z], faults={t: "zero/whole" for t in range(4)}, tag="all-zero"))
  hs.append(dict(grads=[b(), fg(rng, "nan", "entry", 1.0), b(), b(), b()],
                 faults={1: "nan/entry"}, tag="nan@1"))
  hs.append(dict(grads=[fg(rng, "inf", "whole", 1.0), b(), b(), b()],
                 faults={0: "inf/whole"}, tag="inf@0"))
  hs.append(dict(grads=[z, z, b(), z, b()], faults={0: "zero/whole", 1: "zero/whole", 3: "zero/whole"},
                 tag="zero,zero,base,zero"))
  hs.append(dict(grads=[fg(rng, "1e12", "whole", 1.0), fg(rng, "1e-12", "whole", 1.0),
                        b(), b()], faults={0: "1e12/whole", 1: "1e-12/whole"}, tag="1e12,1e-12"))
  hs.append(dict(grads=[b(), b(), fg(rng, "1e30", "whole", 1.0), b(), b(), b()],
                 faults={2: "1e30/whole"}, tag="1e30@2"))
  hs.append(dict(grads=[b(), b(), b(), fg(rng, "nan", "whole", 1.0), b(), b()],
                 faults={3: "nan/whole"}, tag="nan@3"))
  hs.append(dict(grads=[b(), b(), b(), b(), b(), b()], faults={}, tag="clean"))
  hs.append(dict(grads=[fg(rng, "1e-30", "whole", 1.0), fg(rng, "-inf", "entry", 1.0),
                        b(), b()], faults={0: "1e-30/whole", 1: "-inf/entry"}, tag="1e-30,-inf"))

  # a coordinate that never receives gradient (dead unit / untouched embedding row): the statistics
  # have an EXACT null space at every step, so with matrix_epsilon = 0 the Newton iteration never
  # converges and runs to its iteration cap (added after a seeded change of that cap was missed: the
  # iterate overflows to NaN while the reported error stays finite)
  def dead(g):
    g = {k: list(v) for k, v in g.items()}
    if "w" in g:
      g["w"][8:12] = [0.0] * 4          # third row of the 3x4 matrix
    if "v" in g:
      g["v"][1] = 0.0
    if "x" in g:
      g["x"][2] = 0.0
    return g
  hs.append(dict(grads=[dead(b()) for _ in range(6)], faults={t: "zero/deadrow" for t in range(6)},
                 tag="dead-row"))
  return hs


def gen_groups(ctx):
  rng = ctx.rng
  quick = ctx.tier == "quick"
  T = 6 if quick else 8
  groups = []
  gid = 0
  for tree in ("main", "unit"):
    names = TREES[tree]
    pool = [gen_history(rng, rng.rint(4, 6) if quick else rng.rint(5, 8), names)
            for _ in range((300 if tree == "main" else 100) if quick else 900)]
    if tree == "main":
      per_group = 8 if quick else 24
    else:
      per_group = 5 if quick else 16
    for k, (mode, thr, eps, eigh, pcs) in enumerate(
        itertools.product(MODES, THRS, EPSS, [False, True], [1, 2])):
      if quick and (mode == "pmapq" or tree == "unit") and ((k // 2) + pcs) % 2 == 0:
        # compilation dominates the quick tier: pmap configurations and the lone-1x1 tree get ONE
        # of pcs=1,2 per (thr, eps, kernel), alternating; the thorough tier runs the full product
        continue
      if quick and tree == "unit" and mode != "replicated" and (k // 4) % 2 == 1:
        continue   # quick tier: half of the lone-1x1 configurations in pmap / sharded mode
      cfg = dict(mode=mode, thr=thr, eps=eps, eigh=eigh, pcs=pcs, tree=tree,
                 beta2=rng.choice([1.0, 0.999]), graft=rng.choice(["SGD", "RMSPROP_NORMALIZED"]))
      hs = structured_histories(rng, names)
      hs += [pool[rng.below(len(pool))] for _ in range(per_group)]
      if not quick:
        # every subset of <= 3 of the 8 step positions (fault kinds drawn per position)
        for r in range(0, 4):
          for pos in itertools.combinations(range(T), r):
            hs.append(gen_history(rng, T, names, positions=list(pos)))
      groups.append(dict(gid=gid, cfg=cfg,
                         histories=[dict(hid=i, grads=h["grads"], faults=h.get("faults", {}),
                                         tag=h.get("tag", "random")) for i, h in enumerate(hs)]))
      gid += 1
  return groups


# ----------------------------------------------------------------------------------------------
# running the implementation
# ----------------------------------------------------------------------------------------------
def run_groups(groups):
  import concurrent.futures as cf
  pm = [g for g in groups if g["cfg"]["mode"] == "pmapq"]
  other = [g for g in groups if g["cfg"]["mode"] != "pmapq"]
  jobs = []
  n = common.NPROC
  kp = max(1, min(len(pm), n))
  for i in range(kp):
    ch = pm[i::kp]
    if ch:
      jobs.append((2, ch))
  ko = max(1, min(len(other), n))
  for i in range(ko):
    ch = other[i::ko]
    if ch:
      jobs.append((None, ch))

  def one(job):
    devices, ch = job
    wire = [dict(gid=g["gid"], cfg=g["cfg"],
                 histories=[dict(hid=h["hid"], grads=h["grads"]) for h in g["histories"]]) for g in ch]
    return common.run_worker("harness.impl.c03_worker", dict(groups=wire), devices=devices,
                             timeout=3400)

  res = {}
  with cf.ThreadPoolExecutor(max_workers=n) as ex:
    for o in ex.map(one, jobs):
      for r in o["results"]:
        res[r["gid"]] = r
  return res


def moderate(g):
  for k in g:
    for x in g[k]:
      x = dec(x)
      if x != x or abs(x) == float("inf"):
        return False
      if x != 0.0 and not (1e-12 <= abs(x) <= 1e12):
        return False
  return True


def term_for(cfg, hres):
  thr = fv_lit(f32(cfg["thr"]))
  per_stat = []
  nst = len(hres["steps"][0]["trs"]) if hres["steps"] else 0
  for s in range(nst):
    trs = []
    for t, st in enumerate(hres["steps"]):
      tr = st["trs"][s]
      refresh = (t % cfg["pcs"] == 0)
      trs.append("(%s, %s, %s)" % (blit(refresh), fv_lit(tr["err"]), blit(tr["changed"])))
    per_stat.append("chk_history %s [%s]" % (thr, "; ".join(trs)))
  return "[%s]" % "; ".join(per_stat)


_PAIR = re.compile(r"\((-?\d+), (-?\d+)\)")


def parse_codes(v):
  """'[[]; [(1, 11)]; []]' -> [[], [(1, 11)], []]"""
  v = v.strip()
  inner = v[1:-1]
  out, depth, cur = [], 0, ""
  for ch in inner:
    if ch == "[":
      depth += 1
    if ch == "]":
      depth -= 1
    if ch == ";" and depth == 0:
      out.append(cur)
      cur = ""
    else:
      cur += ch
  if cur.strip():
    out.append(cur)
  return [[(int(a), int(b)) for a, b in _PAIR.findall(p.replace("%Z", ""))] for p in out]


# ----------------------------------------------------------------------------------------------
def evaluate(ctx, groups, results, tag="corr"):
  """Coq evaluation + implementation-side oracle.  Returns list of findings
  (kind, signature, record)."""
  terms, where = [], []
  for g in groups:
    r = results[g["gid"]]
    if "exc" in r:
      continue
    for h, hres in zip(g["histories"], r["histories"]):
      terms.append(term_for(g["cfg"], hres))
      where.append((g, h, hres))
  vals = ctx.coq_eval(tag, HEADER, terms, per_shard=max(20, len(terms) // (2 * common.NPROC) + 1))
  findings = []
  for g in groups:
    r = results[g["gid"]]
    if "exc" in r:
      findings.append(("impl-violates", ("exc", r["exc"][:50]), dict(
          gid=g["gid"], input=dict(cfg=g["cfg"], grads=g["histories"][0]["grads"]),
          expected="distributed_shampoo init/update runs", actual=r["exc"], trace=r.get("trace"),
          theorem_or_check="harness/impl/c03_worker.py (public API)")))
  for (g, h, hres), v in zip(where, vals):
    cfg = g["cfg"]
    mode = cfg["mode"]
    STATS = stat_labels(names_of(h["grads"]))
    ctx.count("histories tree=%s" % "+".join(names_of(h["grads"])))
    codes = parse_codes(v)
    inp = dict(cfg=cfg, grads=h["grads"], faults=h.get("faults"), tag=h.get("tag"))
    ctx.count("histories mode=%s" % mode)
    ctx.count("histories thr=%g" % cfg["thr"])
    ctx.count("histories eps=%g" % cfg["eps"])
    ctx.count("histories %s" % ("eigh" if cfg["eigh"] else "newton"))
    ctx.count("histories pcs=%d" % cfg["pcs"])
    for f in (h.get("faults") or {}).values():
      ctx.count("fault " + f.split("/")[0])
    nfaults = len(h.get("faults") or {})
    ctx.count("faults per history = %d" % nfaults)

    ofs = [t for t, st in enumerate(hres["steps"]) for tr in st["trs"]
           if tr.get("direct_err") is not None and math.isfinite(dec(tr["direct_err"]))
           and not tr["direct_finite"]]
    oracle_fail_step = min(ofs) if ofs else None

    def finding(kind, sig, what, t, s, extra=None):
      rec = dict(input=inp, oracle_fail_step=oracle_fail_step, gid=g["gid"], expected="stored preconditioner bitwise unchanged, or reported error "
                 "finite and < threshold; stored preconditioners finite; update finite for "
                 "moderate gradients", actual=what, step=t,
                 statistic=(STATS[s] if s is not None else None),
                 theorem_or_check="c03_select_old_or_verified / c03_precond_finite_invariant "
                                  "(C03.Model.chk_history + harness/c03.py oracle)",
                 observed=[dict(step=i, upd_finite=st["upd_finite"], trs=st["trs"])
                           for i, st in enumerate(hres["steps"])])
      if extra:
        rec.update(extra)
      findings.append((kind, sig, rec))

    if not hres["init_finite"] or not hres["init_identity"]:
      finding("impl-violates", ("init", mode), "initial preconditioners not the identity", 0, None)
    all_moderate = True
    for t, st in enumerate(hres["steps"]):
      refresh = (t % cfg["pcs"] == 0)
      all_moderate = all_moderate and moderate(h["grads"][t])
      if st["count"] != t + 1:
        finding("correspondence-broken", ("count", mode), "count=%s after step %d" % (st["count"], t), t, None)
      if all_moderate:
        ctx.count("updates with all-moderate gradients so far")
        if not st["upd_finite"]:
          finding("impl-violates", ("upd", mode, cfg["eigh"]),
                  "update not finite although all gradients so far are 0 or in [1e-12,1e12]", t, None)
      for s, tr in enumerate(st["trs"]):
        ctx.count("transitions")
        e = dec(tr["err"])
        if refresh:
          ctx.count("refresh transitions")
          if e != e:
            ctx.count("refresh err NaN")
          elif e == f32(cfg["thr"]):
            ctx.count("refresh err == thr")
          elif e > f32(cfg["thr"]):
            ctx.count("refresh err > thr")
          else:
            ctx.count("refresh err < thr")
          if not (e != e or e >= 0.0):
            finding("correspondence-broken", ("errsign", mode),
                    "reported error %r is negative (model assumes a max of absolute values)" % e, t, s)
          # monitor of the oracle assumption on the kernel itself
          de = dec(tr.get("direct_err"))
          if de is not None:
            ctx.count("oracle monitor: direct kernel calls")
            if de == de and abs(de) != float("inf") and not tr["direct_finite"]:
              ctx.count("oracle monitor: finite error with NON-finite root")
              ctx.notes.append("oracle assumption failed: cfg=%s step=%d stat=%s direct_err=%r" %
                               (cfg, t, STATS[s], de))
            if (de == e) or (de != de and e != e):
              ctx.count("oracle monitor: direct error == reported error")
        else:
          ctx.count("non-refresh transitions")
        if tr["changed"]:
          ctx.count("changed")
        if not tr["finite"]:
          finding("impl-violates", ("nonfinite", mode),
                  "stored preconditioner %s is not finite after step %d" % (STATS[s], t), t, s)
        if tr.get("replicas_differ"):
          finding("impl-violates", ("replicas", mode), "pmap replicas hold different preconditioners", t, s)
    for s, lst in enumerate(codes):
      for (t, code) in lst:
        tr = hres["steps"][t]["trs"][s]
        k = code % 10
        if code >= 10:
          finding("impl-violates", ("prop", mode, (t % cfg["pcs"] == 0)),
                  "preconditioner %s changed at step %d although the reported error %r is not "
                  "(finite and < threshold %r) or the step is not a refresh step" %
                  (STATS[s], t, tr["err"], cfg["thr"]), t, s, dict(coq_code=code))
        elif k == 1:
          finding("correspondence-broken", ("keeps", mode),
                  "model select keeps old, implementation changed %s at step %d" % (STATS[s], t), t, s,
                  dict(coq_code=code))
        elif k == 2:
          # model: new root accepted; implementation bitwise unchanged.  Benign iff the new root
          # equals the old one; decided with the directly recomputed candidate root.
          do = dec(tr.get("dist_old"))
          if do is None:
            ctx.count("accepted but bitwise unchanged (no candidate available)")
          elif do == do and do > CAND_TOL:
            finding("correspondence-broken", ("kept-old", mode),
                    "model select takes the new root (error %r < threshold %r) but %s is bitwise "
                    "unchanged although the recomputed root differs from it by %.3g (relative)" %
                    (tr["err"], cfg["thr"], STATS[s], do), t, s, dict(coq_code=code))
          else:
            ctx.count("accepted but bitwise unchanged (new root == old root)")
    key = json.dumps(inp, sort_keys=True)
    nontrivial = nfaults > 0
    sample = None
    if len(ctx.cov["samples"]) < 6 and ctx.cov["evaluations"] % 211 == 0:
      sample = dict(cfg=cfg, faults=h.get("faults"), tag=h.get("tag"),
                    transitions=[[(int(tr["changed"]), tr["err"]) for tr in st["trs"]]
                                 for st in hres["steps"]], coq=v)
    ctx.case(key, nontrivial, sample=sample)
  return findings


def matches_known(rec, k):
  m = k.get("match", {})
  cfg = rec["input"]["cfg"]
  for key, val in (m.get("cfg") or {}).items():
    if cfg.get(key) != val:
      return False
  if m.get("needs_oracle_monitor_failure"):
    ofs = rec.get("oracle_fail_step")
    if ofs is None or rec.get("step") is None or rec["step"] < ofs:
      return False
  return True


def report(ctx, findings, limit_per_sig=1, known=(), known_gids=None):
  seen = {}
  known_gids = known_gids or {}
  # a known finding suppresses only if its recorded witness still reproduces on this tree
  live = []
  for k in known:
    gid = known_gids.get(k["id"])
    if any(rec.get("gid") == gid for _, _, rec in findings):
      live.append(k)
      ctx.known("%s %s" % (k["id"], k["title"]))
    else:
      ctx.notes.append("known finding %s: recorded witness no longer reproduces" % k["id"])
  kept = []
  for kind, sig, rec in findings:
    if rec.get("gid") in known_gids.values():
      continue
    hit = next((k for k in live if kind == "impl-violates" and matches_known(rec, k)), None)
    if hit is not None:
      ctx.count("suppressed by known finding %s" % hit["id"])
      continue
    kept.append((kind, sig, rec))
  findings = kept
  # non-finite stored preconditioners first: the most concrete witness
  order = {"nonfinite": 0, "prop": 1, "upd": 2}
  findings = sorted(findings, key=lambda f: order.get(f[1][0], 5))
  for kind, sig, rec in findings:
    seen[sig] = seen.get(sig, 0) + 1
    if seen[sig] > limit_per_sig:
      continue
    ctx.violation(kind, rec, no_input=(kind == "correspondence-broken"))
  for sig, n in seen.items():
    ctx.count("finding %s" % (sig,), n)


def load_corpus():
  d = os.path.join(common.VERIF, "corpus", "C03")
  out = []
  if os.path.isdir(d):
    for f in sorted(os.listdir(d)):
      if f.endswith(".json"):
        rec = json.load(open(os.path.join(d, f)))
        c = rec.get("input", rec)
        if isinstance(c, dict) and "cfg" in c and "grads" in c:
          out.append(c)
  return out


def run(ctx):
  ctx.cov["rule"] = (
      "configurations: {replicated, pmap int16-quantized on 2 host devices, sharded} x threshold "
      "{0,1e-30,0.1,1e30} x matrix_epsilon {0,1e-6} x {Newton, eigh} x preconditioning_compute_steps "
      "{1,2} (quick tier: pmap gets one of the two per (thr,eps,kernel), alternating; beta2, graft "
      "type drawn per configuration); per configuration 9 structured histories "
      "(all-zero, NaN/Inf on refresh and non-refresh steps, 1e12/1e-12/1e30/1e-30 whole gradients) + "
      "random histories of length 4..6 (thorough: + every subset of <=3 of 8 steps) with a fault "
      "(NaN, +-Inf, 0, +-1e12, +-1e30, 1e-12, 1e-30; one entry or whole gradient) at a random subset "
      "of <=3 positions, on two parameter trees: main = u:(1,), v:(2,), w:(3,4), x:(1,3) with "
      "best_effort_shape_interpretation=False (statistics 1x1, 2x2, 3x3, 4x4 and a 1x1 next to a "
      "3x3, all padded to 4x4) and unit = a lone u:(1,) (the scalar branch of "
      "matrix_inverse_pth_root; quick tier: one of pcs=1,2 per configuration).  A history is "
      "distinct by configuration+gradients and non-trivial when it contains at least one fault")
  ctx.assumptions += [
      "Coq 8.16.1 kernel + vm_compute",
      "fault lattice abstracts finite floats to exact rationals (no overflow/rounding): the theorems "
      "are about the propagation of NaN/Inf through the gate, the run-time check uses the exact "
      "float32 values of the observed error and threshold",
      "oracle assumption of c03_precond_finite_invariant: finite reported error => finite root, and "
      "the reported error is never negative/-Inf -- monitored on every refresh by a direct call of "
      "matrix_inverse_pth_root on the observed statistics (counts in distribution)",
      "XLA/JAX execution (jit, pmap, lax.cond, efficient_cond) is observed, not modelled"]
  ctx.proofs(PROPS)
  translator_obligations(ctx)
  groups = gen_groups(ctx)
  corpus = load_corpus()
  for k, c in enumerate(corpus):
    groups.insert(k, dict(gid=10 ** 6 + k, cfg=c["cfg"],
                          histories=[dict(hid=0, grads=c["grads"], faults=c.get("faults") or {},
                                          tag="corpus")]))
  known = [k for k in common.load_known_findings("C03") if k.get("status") == "open"]
  known_gids = {}
  for k, kf in enumerate(known):
    w = kf.get("witness") or {}
    if "cfg" in w and "grads" in w:
      known_gids[kf["id"]] = 2 * 10 ** 6 + k
      groups.append(dict(gid=2 * 10 ** 6 + k, cfg=w["cfg"],
                         histories=[dict(hid=0, grads=w["grads"], faults=w.get("faults") or {},
                                         tag="known-finding witness " + kf["id"])]))
  nh = sum(len(g["histories"]) for g in groups)
  ctx.log("%d configurations, %d history runs (%d corpus)" % (len(groups), nh, len(corpus)))
  results = run_groups(groups)
  ctx.log("implementation runs done")
  findings = evaluate(ctx, groups, results)
  ctx.log("coq evaluation + oracle done")
  report(ctx, findings, known=known, known_gids=known_gids)
  ctx.flush_proof_failures()


def translator_obligations(ctx):
  """Regenerate the translation of the four acceptance gates from /repo and re-prove it equal to C03.Ref
  (linked to the model's skip/select by c03_source_gates_are_model)."""
  from tools import py2v_gate
  try:
    src = open(os.path.join(common.REPO, "precondition", "distributed_shampoo.py")).read()
  except OSError as e:
    ctx.proof_failure("read distributed_shampoo.py", repr(e))
    return
  text, errors = py2v_gate.generate(src)
  ctx.cov["obligations"] += 1 + len(py2v_gate.NAMES)
  if errors:
    ctx.proof_failure("translate the acceptance gates (_skip/_select_preconditioner x3, sharded predicate)",
                      json.dumps(errors))
    return
  ok, out = ctx.gen_obligation("Gen", text)
  if not ok:
    ctx.proof_failure("compile gen/C03/Gen.v (translation of the acceptance gates)", out[-2000:])
    return
  ctx.cov["discharged"] += 1
  for name in py2v_gate.NAMES:
    ob = ("From Precond Require Import C03.FloatCls.\nFrom Precond Require C03.Ref.\n"
          "From PrecondGen Require C03.Gen.\n"
          "Lemma gen_eq_%s : @C03.Gen.%s = @C03.Ref.%s.\nProof. reflexivity. Qed.\n" % (name, name, name))
    ok, out = ctx.gen_obligation("GenEq_" + name, ob)
    if ok:
      ctx.cov["discharged"] += 1
    else:
      ctx.proof_failure("GenEq_%s (Gen = Ref)" % name, out[-2000:])


def replay(ctx, rec):
  c = rec.get("input")
  if not isinstance(c, dict) or "cfg" not in c:
    print("replay: nothing executable in this record (%s)" % rec.get("theorem_or_check"))
    return 1
  ctx.proofs(PROPS)
  groups = [dict(gid=0, cfg=c["cfg"], histories=[dict(hid=0, grads=c["grads"],
                                                     faults=c.get("faults") or {}, tag="replay")])]
  results = run_groups(groups)
  findings = evaluate(ctx, groups, results, tag="replay")
  r = results[0]
  if "exc" not in r:
    for t, st in enumerate(r["histories"][0]["steps"]):
      print("step %d upd_finite=%s %s" % (t, st["upd_finite"], [
          (("changed" if tr["changed"] else "same"), ("finite" if tr["finite"] else "NONFINITE"),
           tr["err"]) for tr in st["trs"]]))
  for kind, sig, f in findings:
    print("%s: %s (step %s, %s)" % (kind, f["actual"], f.get("step"), f.get("statistic")))
  print("REPLAY %s" % ("reproduces" if findings else "does not reproduce"))
  return 1 if findings else 0
